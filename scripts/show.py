#!/usr/bin/env python3
import json,sys
d=json.load(open(sys.argv[1]))
print("PROP",d.get('prop'),"seed",d.get('seed'),"expect",d.get('expect'),"|",d.get('expect_signature'))
print("knobs",d.get('knobs')); 
if d.get('init_opts'): print("init_opts",d['init_opts'])
for f in d['files']: print("  FILE",f['path'], repr(f.get('data')), f.get('link',''))
for i,o in enumerate(d['ops']): print("  OP",i,json.dumps(o,ensure_ascii=False))
s=d.get('sched',{}); print("sched",{k:v for k,v in s.items() if k!='tape'},"tape",len(s.get('tape') or []))
for s in d.get('scheds') or []: print("scheds",{k:v for k,v in s.items() if k!='tape'},"tape",len(s.get('tape') or []))
print("DETAIL",d.get('detail','')[:int(sys.argv[2]) if len(sys.argv)>2 else 3000])
