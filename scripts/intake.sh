#!/bin/bash
# intake.sh <agent-worktree> <seeded-id> <PROP>: re-verify a sub-agent's breaking change in a fresh
# worktree of /repo HEAD and store it under /verif/seeded/<id>/.
set -u
SRC="$1"; ID="$2"; PROP="$3"
V=/verif
[ -f "$SRC/patch.diff" ] || { echo "no patch.diff"; exit 1; }
demo=$(cd "$SRC" && git status --porcelain | grep '_test.go' | awk '{print $2}' | head -1)
[ -n "$demo" ] || { echo "no demo test found"; exit 1; }
WT=$(mktemp -d /tmp/intake-XXXX); rmdir "$WT"
git -C /repo worktree add -q --detach "$WT" HEAD
G="GOFLAGS=-mod=mod GOPROXY=off GOSUMDB=off"
res() { echo "$1" | tee -a "$WT/../intake-$ID.log"; }
cd "$WT" && git apply "$SRC/patch.diff" || { echo "patch does not apply to HEAD"; git -C /repo worktree remove --force "$WT"; exit 1; }
if grep -q '_test.go' <(git -C "$WT" diff --name-only); then echo "patch touches test files"; fi
cd "$WT/luahelper-lsp" && env $G go build ./... || { echo "BUILD FAILS"; git -C /repo worktree remove --force "$WT"; exit 1; }
suite=$(env $G go test -vet=off -count=1 ./... 2>&1 | grep -c "^FAIL\|^---")
cp "$SRC/$demo" "$WT/$demo"
pkg=./$(dirname "${demo#luahelper-lsp/}")/
with=$(cd "$WT/luahelper-lsp" && env $G timeout 600 go test -vet=off -count=1 -run 'Seeded|Demo' ${EXTRA_FLAGS:-} $pkg 2>&1 | tail -3 | tr '\n' ' ')
cd "$WT" && git apply -R "$SRC/patch.diff"
without=$(cd "$WT/luahelper-lsp" && env $G timeout 600 go test -vet=off -count=1 -run 'Seeded|Demo' ${EXTRA_FLAGS:-} $pkg 2>&1 | tail -3 | tr '\n' ' ')
echo "suite failures with change: $suite"
echo "demo WITH change:    $with"
echo "demo WITHOUT change: $without"
mkdir -p "$V/seeded/$ID"
cp "$SRC/patch.diff" "$V/seeded/$ID/patch.diff"
cp "$SRC/$demo" "$V/seeded/$ID/$(basename $demo).txt"
[ -f "$SRC/NOTES.md" ] && cp "$SRC/NOTES.md" "$V/seeded/$ID/NOTES.md"
python3 - "$V/seeded/$ID/meta.json" "$ID" "$PROP" "$suite" "$with" "$without" "$demo" <<'PY'
import json,sys
p,i,prop,suite,w,wo,demo=sys.argv[1:8]
json.dump({"id":i,"property":prop,"caught_by":[prop],"demo_test":demo,"existing_suite_failures_with_change":int(suite),"demo_with_change":w.strip()[-300:],"demo_without_change":wo.strip()[-300:],"needs":"see NOTES.md","ran":["git apply patch.diff in a fresh worktree of /repo HEAD","go build ./... && go test -vet=off -count=1 ./... (existing suite)","go test -run 'Seeded|Demo' on the demo with and without the change"]},open(p,'w'),indent=1)
PY
git -C /repo worktree remove --force "$WT"
