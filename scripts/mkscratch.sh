#!/bin/bash
# mkscratch.sh <scratch-dir>: instrumented copy of /repo's current working tree (luahelper-lsp) in <scratch-dir>/lsp
set -euo pipefail
S="$1"
REPO="${VERIF_REPO:-/repo}"
V="$(cd "$(dirname "$0")/.." && pwd)"
export PATH=/opt/veriftools/go1.26.8/bin:$PATH GOFLAGS=-mod=mod GOPROXY=off GOSUMDB=off GOTOOLCHAIN=local
mkdir -p "$S"
rsync -a --delete --exclude log.txt "$REPO/luahelper-lsp/" "$S/lsp/"
ln -sfn "$REPO/luahelper-vscode" "$S/luahelper-vscode"
cat >> "$S/lsp/go.mod" <<EOT

require simrt v0.0.0

replace simrt => $V/simrt
EOT
cp "$V/harness/sim_access.go.txt" "$S/lsp/langserver/sim_access.go"
"$V/bin/simgen" "$S/lsp" "$S/simgen-stats.json"
