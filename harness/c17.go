package harness

import (
	"encoding/json"
	"fmt"
	"math/rand"
	"regexp"
	"sort"
	"strconv"
	"strings"
	"testing"

	"simrt/simfs"
)

// C17 — each configuration switch silences exactly the diagnostics it names, identically
// through the three delivery channels, after any change history, and malformed settings never
// take the server down.

func init() { register(&Property{ID: "C17", Gen: genC17, Check: checkC17}) }

var c17Files = map[string]string{
	"src/syn.lua":   "local a = = 1\n",
	"src/undef.lua": "print(undefinedvar)\nprint(latervar)\nlatervar = 1\nlocal unusedloc = 1\nlocal t = {k = 1, k = 2}\nlocal r = require(\"nofile\")\nprint(t, r)\n",
	"src/arity.lua": "local a, b = 1, 2\nlocal c\nc = a, b\nlocal d = a, b\nprint(c, d)\nfunction twoargs(x, y) return x, y end\ntwoargs(1, 2, 3)\n",
	"lib/misc.lua":  "function dupparam(p, p) return p end\nlocal q = 1\nlocal r1 = q and q\nlocal r2 = q or true\nlocal r3 = q and false\nprint(r1, r2, r3)\nif q == 1 then print(1) elseif q == 1 then print(2) end\nq = q\nif q == 1.5 then print(3) end\nfor i = 1, 2 do goto nolabel end\n",
	"lib/ifnot.lua": "local ss = nil\nif not ss then\n  print(ss.name)\nend\n",
	"lib/def.lua":   "function crossfn(a) return a end\ncrossvar = 1\n",
	"src/use.lua":   "crossfn(1, 2)\nprint(crossvar, nowhere)\n",
	"src/ann.lua":   "---@class Animal\n---@field name string\nlocal Animal = {}\n---@type Animal\nlocal pet = nil\nprint(pet.name, pet.age)\n---@type NoSuchType\nlocal z = nil\nprint(z)\n---@param n number\n---@return string\nlocal function f(n) return n end\nprint(f(\"x\"))\n",
	"ok.lua":        "local fine = 1\nprint(fine)\n",
	// directories whose names contain regular-expression operators: a rule naming them as a plain
	// path fragment is also a valid pattern that does not match its own text
	"third(party)/a.lua": "local unused_tp = 1\nprint(undefined_tp)\n",
	"lua+ext/b.lua":      "local unused_le = 1\nprint(undefined_le)\n",
	// type 17 (and 4): a local that is only ever assigned
	"src/t17.lua": "local nu = 1\nnu = 2\nnu = 3\n",
	// type 11: a member the imported module does not have
	"ext/modx.lua": "have = 1\nlocal M = {}\nM.have = 1\nreturn M\n",
	"src/t11.lua":  "local im = import(\"modx.lua\")\nprint(im.have, im.nope)\n",
}

// C17Config is one configuration in channel-independent form.
type C17Config struct {
	AllEnable bool             `json:"all"`
	Off       []int            `json:"off"`                  // diagnostic types switched off (1..25)
	IgnErr    []string         `json:"ign_err,omitempty"`    // IgnoreFileOrDirError / IgnoreFileErr
	IgnHandle []string         `json:"ign_handle,omitempty"` // IgnoreFileOrDir / IgnoreFileOrFloder
	FileTypes map[string][]int `json:"file_types,omitempty"` // IgnoreFileErrTypes (luahelper.json only)
	// luahelper.json only: OpenErrorTypes, the opt-in list for types 22..29 (OpenSet: the list is
	// authoritative, i.e. this is a luahelper.json configuration)
	Open    []int `json:"open,omitempty"`
	OpenSet bool  `json:"open_set,omitempty"`
}

func (c C17Config) opened(t int) bool {
	for _, x := range c.Open {
		if x == t {
			return true
		}
	}
	return false
}

func (c C17Config) off(t int) bool {
	for _, x := range c.Off {
		if x == t {
			return true
		}
	}
	return false
}

// initOpts renders the configuration as initializationOptions.
func (c C17Config) initOpts() map[string]interface{} {
	o := map[string]interface{}{"AllEnable": c.AllEnable, "client": "vsc"}
	for i, k := range AllFlags {
		o[k] = !c.off(i + 1)
	}
	if len(c.IgnErr) > 0 {
		o["IgnoreFileOrDirError"] = c.IgnErr
	}
	if len(c.IgnHandle) > 0 {
		o["IgnoreFileOrDir"] = c.IgnHandle
	}
	return o
}

// settings renders it as didChangeConfiguration settings.
func (c C17Config) settings() json.RawMessage {
	warn := map[string]interface{}{"AllEnable": c.AllEnable}
	for i, k := range AllFlags {
		warn[k] = !c.off(i + 1)
	}
	base := map[string]interface{}{}
	if len(c.IgnErr) > 0 {
		base["IgnoreFileOrDirError"] = c.IgnErr
	}
	if len(c.IgnHandle) > 0 {
		base["IgnoreFileOrDir"] = c.IgnHandle
	}
	b, _ := json.Marshal(map[string]interface{}{"luahelper": map[string]interface{}{"base": base, "Warn": warn}})
	return b
}

// jsonFile renders it as luahelper.json.
func (c C17Config) jsonFile() string {
	m := map[string]interface{}{"BaseDir": "./", "ShowWarnFlag": 0}
	if c.AllEnable {
		m["ShowWarnFlag"] = 1
	}
	if len(c.Off) > 0 {
		m["IgnoreErrorTypes"] = c.Off
	}
	if len(c.IgnErr) > 0 {
		m["IgnoreFileErr"] = c.IgnErr
	}
	if len(c.IgnHandle) > 0 {
		m["IgnoreFileOrFloder"] = c.IgnHandle
	}
	if c.OpenSet {
		open := c.Open
		if open == nil {
			open = []int{}
		}
		m["OpenErrorTypes"] = open
	}
	if len(c.FileTypes) > 0 {
		var l []interface{}
		var names []string
		for n := range c.FileTypes {
			names = append(names, n)
		}
		sort.Strings(names)
		for _, n := range names {
			l = append(l, map[string]interface{}{"File": n, "Types": c.FileTypes[n]})
		}
		m["IgnoreFileErrTypes"] = l
	}
	b, _ := json.MarshalIndent(m, "", " ")
	return string(b)
}

var c17Patterns = []string{"lib/", "src/", "src/syn.lua", "lib/misc.lua", "src/un.*lua", "lib/i.*\\.lua", "ok.lua", "src/a", "ext/", "third(party)/", "lua+ext/b.lua", "third(party)/a.lua", "lua+ext/", "src/un.ef.lua", "lib.misc"}

// importTargetIgnored: an error-ignore rule of the configuration matches the module that
// src/t11.lua imports.  The server then also drops the importer's type-11 diagnostics about that
// module (deliberately: analysis_search.go checks the *referenced* file against the ignore rules),
// which is more than "exactly the matching files' diagnostics" — recorded as a known finding under
// its own signature.
func importTargetIgnored(c C17Config) bool {
	for _, p := range c.IgnErr {
		if matchesPattern(Root+"/ext/modx.lua", p) {
			return true
		}
	}
	for p, ts := range c.FileTypes {
		if matchesPattern(Root+"/ext/modx.lua", p) {
			for _, t := range ts {
				if t == 11 {
					return true
				}
			}
		}
	}
	return false
}

func randC17Config(r *rand.Rand, jsonMode bool) C17Config {
	c := C17Config{AllEnable: r.Intn(12) > 0}
	maxType := 25
	// (luahelper.json's OpenErrorTypes, the opt-in list for types 22..29, is not part of the
	// property's quantifier and its interplay with the other lists is not documented; it is left at
	// its default)
	switch r.Intn(4) {
	case 0: // one flag off
		c.Off = []int{1 + r.Intn(maxType)}
	case 1: // random subset
		for t := 1; t <= maxType; t++ {
			if r.Intn(3) == 0 {
				c.Off = append(c.Off, t)
			}
		}
	case 2: // most off (the cross-file checks in particular)
		for t := 1; t <= maxType; t++ {
			if r.Intn(5) > 0 {
				c.Off = append(c.Off, t)
			}
		}
	}
	if r.Intn(3) == 0 {
		c.IgnErr = append(c.IgnErr, c17Patterns[r.Intn(len(c17Patterns))])
		if r.Intn(3) == 0 {
			c.IgnErr = append(c.IgnErr, c17Patterns[r.Intn(len(c17Patterns))])
		}
	}
	if r.Intn(5) == 0 {
		c.IgnHandle = append(c.IgnHandle, []string{"lib/", "src/syn.lua", "lib/misc.lua", "src/un.*lua", "ok.lua"}[r.Intn(5)])
	}
	if jsonMode && r.Intn(3) == 0 {
		c.FileTypes = map[string][]int{}
		n := 1 + r.Intn(2)
		for i := 0; i < n; i++ {
			var ts []int
			for t := 1; t <= maxType; t++ {
				if r.Intn(4) == 0 {
					ts = append(ts, t)
				}
			}
			c.FileTypes[[]string{"src/undef.lua", "lib/misc.lua", "lib/", "src/a.*lua", "src/un.ef.lua", "lib.misc"}[r.Intn(6)]] = ts
		}
	}
	return c
}

func c17Workspace(r *rand.Rand) []File {
	var fs []File
	var names []string
	for n := range c17Files {
		names = append(names, n)
	}
	sort.Strings(names)
	for _, n := range names {
		if r.Intn(10) == 0 && n != "lib/def.lua" {
			continue // workspaces vary a little
		}
		fs = append(fs, File{Path: n, Data: Bytes(c17Files[n])})
	}
	return fs
}

var c17Hostile = []string{
	`{"luahelper":{"base":{"IgnoreFileOrDirError":["(["],"IgnoreFileOrDir":["*bad"]},"Warn":{"AllEnable":true,"CheckSyntax":true}}}`,
	`{"luahelper":{"base":{"IgnoreFileOrDirError":["a{2,1}","\\"],"ReferenceMaxNum":-5,"PreviewFieldsNum":-1},"Warn":{"AllEnable":true}}}`,
	`{"luahelper":{"base":{"RequirePathSeparator":"??","IgnoreFileOrDir":["(?P<x"]},"Warn":{"AllEnable":true,"CheckNoDefine":true}}}`,
	`{"luahelper":{},"files":{"associations":{"*.txt":"lua","*.x":5}}}`,
	`{"files":{"associations":[1,2,3]}}`,
	`{}`,
}

var c17HostileJSON = []string{
	`{"BaseDir":"./","ShowWarnFlag":1,"IgnoreFileErr":["(["]}`,
	`{"BaseDir":"./","ShowWarnFlag":1,"IgnoreFileErrTypes":[{"File":"*[","Types":[1,2]}]}`,
	`{"BaseDir":"./","ShowWarnFlag":1,"IgnoreFileOrFloder":["(?P<"],"IgnoreErrorTypes":[-1,99,0]}`,
	`{"BaseDir":"../../..","ShowWarnFlag":1,"ProjectFiles":["nosuch.lua","../x.lua"],"OtherDir":"/nonexistent"}`,
	`{"BaseDir":"./","ShowWarnFlag":1,"ReferFrameFiles":[{"Name":"","Type":9,"SuffixFlag":7}],"PathSeparator":""}`,
	`{"BaseDir": 5}`,
	`not json at all`,
	``,
	`{"IgnoreErrorTypes":"x","ShowWarnFlag":"y"}`,
}

func genC17(seed int64, tier string) *Scenario {
	r := rand.New(rand.NewSource(seed))
	sc := &Scenario{Prop: "C17", Seed: seed, Knobs: map[string]interface{}{}, Sched: Canonical()}
	sc.Files = c17Workspace(r)
	sc.Plugin = r.Intn(2) == 0 // the client names its plugin path, as the real one does
	mode := []string{"filter", "filter", "channel", "history", "json", "json", "hostile", "hostile-json", "first-swallowed", "json-project"}[r.Intn(10)]
	sc.Knobs["mode"] = mode
	switch mode {
	case "filter", "channel":
		c := randC17Config(r, false)
		if r.Intn(3) == 0 && len(c.IgnHandle) == 0 {
			c.IgnHandle = append(c.IgnHandle, []string{"lib/", "src/syn.lua", "lib/misc.lua", "src/un.*lua", "ok.lua"}[r.Intn(5)])
		}
		sc.Knobs["config"] = c
		if r.Intn(2) == 0 {
			// after start-up the world changes two files and the watcher reports them in one batch:
			// one that the configuration excludes from analysis (if any) and one that it does not
			ignored := map[string]string{"lib/": "lib/misc.lua", "src/syn.lua": "src/syn.lua", "lib/misc.lua": "lib/misc.lua", "src/un.*lua": "src/undef.lua", "ok.lua": "ok.lua"}
			b := map[string]interface{}{"normal": []string{"src/use.lua", "src/arity.lua", "lib/def.lua"}[r.Intn(3)], "order": r.Intn(2),
				"data": []string{"print(brandnewglobal)\nlocal unusedx = 1\n", "crossvar = 3\nfunction crossfn(a, b, c) return a end\nlocal t = {q = 1, q = 2}\n"}[r.Intn(2)]}
			if len(c.IgnHandle) > 0 {
				b["ignored"] = ignored[c.IgnHandle[0]]
			} else {
				b["ignored"] = "ok.lua"
			}
			if r.Intn(3) == 0 {
				// a second workspace folder holds a file whose path contains the rule's fragment; it is
				// rewritten in the same batch. Whether the rule applies to other folders is not for the
				// model to say: the history is compared with a fresh start only
				b["ws2"] = []string{"/ws2", "/second"}[r.Intn(2)] // beside the root: one shares its name's prefix
			}
			sc.Knobs["batch"] = b
		}
		if r.Intn(3) == 0 {
			sc.Knobs["dirty"] = true
			sc.Knobs["dirty_text"] = []string{"local fine = = 1\nprint(fine)\n", "local fine = 1\nlocal other_unused = 2\nprint(fine)\n", "print(fine\n"}[r.Intn(3)]
		}
	case "first-swallowed":
		// the start-up didChangeConfiguration (which the server ignores by design) carries settings
		// that differ from the initialization options; incremental updates follow, no second change
		sc.Knobs["config"] = randC17Config(r, false)
		sc.Knobs["first"] = randC17Config(r, false)
		sc.Knobs["touch"] = []string{"src/use.lua", "src/arity.lua", "lib/def.lua", "lib/misc.lua"}[r.Intn(4)]
		sc.Knobs["data"] = []string{"print(brandnewglobal)\nlocal unusedx = 1\n", "crossvar = 3\nfunction crossfn(a, b, c) return a end\nlocal t = {q = 1, q = 2}\n"}[r.Intn(2)]
	case "history":
		n := 2 + r.Intn(4)
		var cs []C17Config
		for i := 0; i < n; i++ {
			cs = append(cs, randC17Config(r, false))
		}
		if r.Intn(4) == 0 {
			cs[len(cs)-1].AllEnable = false // the last change switches everything off (events may follow)
		}
		sc.Knobs["configs"] = cs
		// file events interleaved with the configuration changes
		var evs []interface{}
		for i := 0; i <= n; i++ { // i == n: after the last settings change
			if r.Intn(2) == 0 {
				names := []string{"src/use.lua", "lib/def.lua", "src/new.lua", "lib/misc.lua"}
				nm := names[r.Intn(len(names))]
				if r.Intn(3) == 0 {
					evs = append(evs, map[string]interface{}{"at": i, "remove": nm})
				} else {
					evs = append(evs, map[string]interface{}{"at": i, "write": nm, "data": []string{"print(brandnew)\n", "crossvar = 2\nfunction crossfn(a, b) return a end\n", "local u = 1\n"}[r.Intn(3)]})
				}
			}
		}
		sc.Knobs["events"] = evs
	case "json":
		sc.Knobs["config"] = randC17Config(r, true)
		if r.Intn(4) == 0 {
			sc.Knobs["read_fault"] = []string{"eio", "eacces", "torn", "empty"}[r.Intn(4)]
		}
	case "json-project":
		// luahelper.json with a project entry file whose required module is missing at start-up and
		// created later (watcher event): with any ignore configuration the result must be that of a
		// fresh start on the final disk with the same luahelper.json
		sc.Knobs["config"] = randC17Config(r, true)
		sc.Knobs["late"] = []string{"lib/def.lua", "lib/helper.lua"}[r.Intn(2)]
	case "hostile":
		sc.Knobs["settings"] = c17Hostile[r.Intn(len(c17Hostile))]
		sc.Knobs["at_init"] = r.Intn(2) == 0
	case "hostile-json":
		sc.Knobs["json"] = c17HostileJSON[r.Intn(len(c17HostileJSON))]
	}
	return sc
}

// ---- reference filter ---------------------------------------------------------------------------

func diagType(d string) int {
	m := warnTypeRe.FindStringSubmatch(d)
	if m == nil {
		return 0
	}
	n, _ := strconv.Atoi(m[1])
	return n
}

// matchesPattern mirrors the documented matching of ignore rules: the rule is a path fragment
// or a regular expression matched against the file path.
func matchesPattern(path, pat string) bool {
	if strings.Contains(path, pat) {
		return true
	}
	re, err := regexp.Compile(pat)
	return err == nil && re.MatchString(path)
}

// filterView computes "the diagnostics of the all-checks-enabled run that are not excluded".
func filterView(all map[string][]string, c C17Config) map[string][]string {
	out := map[string][]string{}
	if !c.AllEnable {
		return out
	}
	for uri, ds := range all {
		path := strings.TrimPrefix(uri, "file://")
		ignored := false
		for _, p := range c.IgnErr {
			if matchesPattern(path, p) {
				ignored = true
			}
		}
		if ignored {
			continue
		}
		var keep []string
		for _, d := range ds {
			t := diagType(d)
			if c.off(t) {
				continue
			}
			if c.OpenSet && t >= 22 && t <= 29 && !c.opened(t) {
				continue // an opt-in type that this luahelper.json does not open
			}
			drop := false
			for p, ts := range c.FileTypes {
				if matchesPattern(path, p) {
					for _, x := range ts {
						if x == t {
							drop = true
						}
					}
				}
			}
			if !drop {
				keep = append(keep, d)
			}
		}
		if len(keep) > 0 {
			out[uri] = keep
		}
	}
	return out
}

func knobConfig(v interface{}) C17Config {
	var c C17Config
	b, _ := json.Marshal(v)
	json.Unmarshal(b, &c)
	return c
}

func allEnabled() C17Config { return C17Config{AllEnable: true} }

// allEnabledJSON: the luahelper.json reference configuration — nothing ignored, every opt-in type open.
func allEnabledJSON() C17Config {
	return C17Config{AllEnable: true, OpenSet: true, Open: []int{22, 23, 24, 25, 26, 27, 28, 29}}
}

// withoutIgnoredFiles removes files whose analysis the configuration excludes.
func withoutIgnoredFiles(fs []File, c C17Config) []File {
	var out []File
	for _, f := range fs {
		skip := false
		for _, p := range c.IgnHandle {
			if matchesPattern(f.Path, p) {
				skip = true
			}
		}
		if !skip {
			out = append(out, f)
		}
	}
	return out
}

func checkC17(t *testing.T, sc *Scenario) *Verdict {
	v := &Verdict{OK: true}
	mode, _ := sc.Knobs["mode"].(string)
	run := func(s *Scenario) *RunResult {
		s.Plugin = sc.Plugin // every run of one comparison has the same client installation
		r := Run(t, s, sc.Sched, Hooks{})
		v.absorb(r)
		return r
	}
	bad := func(class, sig, detail string) *Verdict { return v.violation(class, sig, detail, sc) }
	fail := func(r *RunResult, what string) *Verdict {
		return bad("c17-run-"+r.Outcome, what+": "+r.Outcome, r.Detail)
	}
	var filterCfg *C17Config // the configuration whose filter view is being compared (nil: none)
	cmp := func(class, what string, got, want map[string][]string, extra string) *Verdict {
		types, d := diffViews(got, want)
		if d == "" {
			return nil
		}
		if class == "c17-not-a-filter" && filterCfg != nil && len(types) == 1 && types[0] == "11" && importTargetIgnored(*filterCfg) && strings.Contains(d, "only/more in B") {
			return bad(class, "imported-module-error-ignored: type 11 of the importer silenced too", fmt.Sprintf("A=observed B=expected: %s\n--- observed:\n%s--- expected:\n%s", d, viewToString(got), viewToString(want)))
		}
		return bad(class, fmt.Sprintf("%s diag-type:%s%s", what, strings.Join(types, ","), extra), fmt.Sprintf("A=observed B=expected: %s\n--- observed:\n%s--- expected:\n%s", d, viewToString(got), viewToString(want)))
	}
	switch mode {
	case "filter", "channel":
		c := knobConfig(sc.Knobs["config"])
		a := run(&Scenario{Files: sc.Files, InitOpts: c.initOpts()})
		if a.Outcome != OutOK {
			return fail(a, "init-options")
		}
		// (b) same configuration delivered as a later settings change
		b := run(&Scenario{Files: sc.Files, InitOpts: allEnabled().initOpts(), FirstCfg: true, Ops: []Op{{Kind: "config", Params: c.settings()}}})
		if b.Outcome != OutOK {
			return fail(b, "settings-change")
		}
		if vv := cmp("c17-channel-mismatch", "init-vs-change", b.View, a.View, ""); vv != nil {
			return vv
		}
		// filter relation against the all-enabled run (on the workspace the configuration analyses)
		base := run(&Scenario{Files: withoutIgnoredFiles(sc.Files, c), InitOpts: allEnabled().initOpts()})
		if base.Outcome != OutOK {
			return fail(base, "all-enabled")
		}
		extra := ""
		if len(c.IgnHandle) > 0 {
			extra = " +ignore-analysis"
		}
		filterCfg = &c
		if vv := cmp("c17-not-a-filter", "client-settings", a.View, filterView(base.View, c), extra+specialGate(c)); vv != nil {
			return vv
		}
		if bm, ok := sc.Knobs["batch"].(map[string]interface{}); ok {
			normal, _ := bm["normal"].(string)
			ign, _ := bm["ignored"].(string)
			data, _ := bm["data"].(string)
			order := fmt.Sprint(bm["order"]) == "1"
			w1 := Op{Kind: "fswrite", Path: ign, Data: Bytes("local touched_by_world = 1\nprint(touched_by_world)\n")}
			w2 := Op{Kind: "fswrite", Path: normal, Data: Bytes(data)}
			ops := []Op{w1, w2}
			if order {
				ops = []Op{w2, w1}
			}
			var folders []string
			startFiles := sc.Files
			var ws2Final []File
			if ws2, _ := bm["ws2"].(string); ws2 != "" {
				folders = []string{Root, ws2}
				twin := ws2 + "/" + ign
				startFiles = append(append([]File{}, sc.Files...), File{Path: twin, Data: Bytes("local ws2_fine = 1\nprint(ws2_fine)\n")},
					File{Path: ws2 + "/plain.lua", Data: Bytes("print(ws2_plain_undefined)\n")})
				w3 := Op{Kind: "fswrite", Path: twin, Data: Bytes("local ws2_unused = 1\nprint(ws2_undefined_now)\n")}
				ops = append(ops, w3)
				ws2Final = []File{{Path: twin, Data: w3.Data}, {Path: ws2 + "/plain.lua", Data: Bytes("print(ws2_plain_undefined)\n")}}
			}
			ops = append(ops, Op{Kind: "deliver"})
			hb := run(&Scenario{Files: startFiles, Folders: folders, InitOpts: c.initOpts(), Ops: ops})
			if hb.Outcome != OutOK {
				return fail(hb, "batch-events")
			}
			var final []File
			for _, f := range sc.Files {
				switch f.Path {
				case ign:
					final = append(final, File{Path: f.Path, Data: w1.Data})
				case normal:
					final = append(final, File{Path: f.Path, Data: w2.Data})
				default:
					final = append(final, f)
				}
			}
			has := func(p string) bool {
				for _, f := range final {
					if f.Path == p {
						return true
					}
				}
				return false
			}
			if !has(ign) {
				final = append(final, File{Path: ign, Data: w1.Data})
			}
			if !has(normal) {
				final = append(final, File{Path: normal, Data: w2.Data})
			}
			final = append(final, ws2Final...)
			fb := run(&Scenario{Files: final, Folders: folders, InitOpts: c.initOpts()})
			if fb.Outcome != OutOK {
				return fail(fb, "batch-events fresh")
			}
			if vv := cmp("c17-history-differs-from-fresh", "watched-files batch under the configuration", hb.View, fb.View, extra); vv != nil {
				return vv
			}
		}
		if dirtyKnob, _ := sc.Knobs["dirty"].(bool); dirtyKnob {
			// a document with an unsaved edit (with or without a syntax error in the buffer) is open
			// while the configuration arrives through a settings change: what the client holds must
			// be the filter of what it holds with every check on and the same unsaved edit
			text, _ := sc.Knobs["dirty_text"].(string)
			dops := []Op{{Kind: "open", Path: "ok.lua"}, {Kind: "change", Path: "ok.lua", Edits: []Edit{{Full: true, Text: text}}}}
			db := run(&Scenario{Files: sc.Files, InitOpts: allEnabled().initOpts(), FirstCfg: true, Ops: append(append([]Op{}, dops...), Op{Kind: "config", Params: c.settings()})})
			if db.Outcome != OutOK {
				return fail(db, "dirty settings-change")
			}
			dbase := run(&Scenario{Files: withoutIgnoredFiles(sc.Files, c), InitOpts: allEnabled().initOpts(), Ops: dops})
			if dbase.Outcome != OutOK {
				return fail(dbase, "dirty all-enabled")
			}
			filterCfg = &c
			if vv := cmp("c17-not-a-filter", "settings change over an unsaved buffer", db.View, filterView(dbase.View, c), extra+specialGate(c)); vv != nil {
				return vv
			}
		}
		v.Shape = fmt.Sprintf("%s %v %v %v view=%x", mode, c.Off, c.IgnErr, c.IgnHandle, hashString(a.ViewString()))
		v.NonTrivial = len(base.View) > 0
	case "first-swallowed":
		c := knobConfig(sc.Knobs["config"])
		first := knobConfig(sc.Knobs["first"])
		touch, _ := sc.Knobs["touch"].(string)
		data, _ := sc.Knobs["data"].(string)
		h := &Scenario{Files: sc.Files, InitOpts: c.initOpts(), Ops: []Op{
			{Kind: "config", Params: first.settings()}, // first notification after start-up: ignored by design
			{Kind: "fswrite", Path: touch, Data: Bytes(data)}, {Kind: "deliver"},
			{Kind: "open", Path: "ok.lua"}, {Kind: "change", Path: "ok.lua", Edits: []Edit{{Full: true, Text: "local fine = 1\nlocal alsounused = 2\nprint(fine)\n"}}}, {Kind: "save", Path: "ok.lua"}, {Kind: "deliver"},
		}}
		hr := run(h)
		if hr.Outcome != OutOK {
			return fail(hr, "first-swallowed")
		}
		var final []File
		seen := map[string]bool{}
		for _, f := range sc.Files {
			switch f.Path {
			case touch:
				final = append(final, File{Path: f.Path, Data: Bytes(data)})
			case "ok.lua":
				final = append(final, File{Path: f.Path, Data: Bytes("local fine = 1\nlocal alsounused = 2\nprint(fine)\n")})
			default:
				final = append(final, f)
			}
			seen[f.Path] = true
		}
		if !seen[touch] {
			final = append(final, File{Path: touch, Data: Bytes(data)})
		}
		if !seen["ok.lua"] {
			v.Invalid = true
			return v
		}
		fr := run(&Scenario{Files: final, InitOpts: c.initOpts(), Ops: []Op{{Kind: "open", Path: "ok.lua"}}})
		if fr.Outcome != OutOK {
			return fail(fr, "first-swallowed fresh")
		}
		if vv := cmp("c17-history-differs-from-fresh", "first (ignored) settings notification + incremental update", hr.View, fr.View, ""); vv != nil {
			return vv
		}
		v.Shape = fmt.Sprintf("first-swallowed %v/%v view=%x", c.Off, first.Off, hashString(hr.ViewString()))
		v.NonTrivial = true
	case "history":
		var cs []C17Config
		b, _ := json.Marshal(sc.Knobs["configs"])
		json.Unmarshal(b, &cs)
		if len(cs) == 0 {
			v.Invalid = true
			return v
		}
		var evs []map[string]interface{}
		b, _ = json.Marshal(sc.Knobs["events"])
		json.Unmarshal(b, &evs)
		h := &Scenario{Files: sc.Files, InitOpts: allEnabled().initOpts(), FirstCfg: true}
		disk := map[string]string{}
		for _, f := range sc.Files {
			disk[f.Path] = string(f.Data)
		}
		for i, c := range cs {
			for _, ev := range evs {
				if at, _ := ev["at"].(float64); int(at) == i {
					if w, ok := ev["write"].(string); ok {
						d, _ := ev["data"].(string)
						h.Ops = append(h.Ops, Op{Kind: "fswrite", Path: w, Data: Bytes(d)}, Op{Kind: "deliver"})
						disk[w] = d
					} else if rm, ok := ev["remove"].(string); ok {
						if _, ex := disk[rm]; ex {
							h.Ops = append(h.Ops, Op{Kind: "fsremove", Path: rm}, Op{Kind: "deliver"})
							delete(disk, rm)
						}
					}
				}
			}
			h.Ops = append(h.Ops, Op{Kind: "config", Params: c.settings()})
		}
		for _, ev := range evs {
			// file events after the last settings change: they are handled under those settings
			if at, _ := ev["at"].(float64); int(at) == len(cs) {
				if w, ok := ev["write"].(string); ok {
					d, _ := ev["data"].(string)
					h.Ops = append(h.Ops, Op{Kind: "fswrite", Path: w, Data: Bytes(d)}, Op{Kind: "deliver"})
					disk[w] = d
				} else if rm, ok := ev["remove"].(string); ok {
					if _, ex := disk[rm]; ex {
						h.Ops = append(h.Ops, Op{Kind: "fsremove", Path: rm}, Op{Kind: "deliver"})
						delete(disk, rm)
					}
				}
			}
		}
		hr := run(h)
		if hr.Outcome != OutOK {
			return fail(hr, "history")
		}
		var final []File
		for p, d := range disk {
			final = append(final, File{Path: p, Data: Bytes(d)})
		}
		sort.Slice(final, func(i, j int) bool { return final[i].Path < final[j].Path })
		last := cs[len(cs)-1]
		fr := run(&Scenario{Files: final, InitOpts: last.initOpts()})
		if fr.Outcome != OutOK {
			return fail(fr, "fresh")
		}
		if vv := cmp("c17-history-differs-from-fresh", "config-history", hr.View, fr.View, ""); vv != nil {
			return vv
		}
		v.Shape = fmt.Sprintf("history n=%d view=%x", len(cs), hashString(hr.ViewString()))
		v.NonTrivial = true
	case "json-project":
		c := knobConfig(sc.Knobs["config"])
		late, _ := sc.Knobs["late"].(string)
		// the project: entry src/entry.lua requires def and helper; src/other.lua (also required) reads
		// a global of helper inside a function
		proj := map[string]string{
			"src/entry.lua":  "local d = require(\"def\")\nlocal h = require(\"helper\")\nlocal o = require(\"other\")\nprint(d, h, o)\ncrossfn(1, 2)\n",
			"src/other.lua":  "function other_fn()\n  return helper_val, crossvar\nend\nprint(nowhere_at_all)\n",
			"lib/helper.lua": "helper_val = 1\nlocal unused_in_helper = 2\n",
		}
		var files []File
		for _, f := range sc.Files {
			if _, over := proj[f.Path]; !over {
				files = append(files, f)
			}
		}
		var names []string
		for n := range proj {
			names = append(names, n)
		}
		sort.Strings(names)
		for _, n := range names {
			files = append(files, File{Path: n, Data: Bytes(proj[n])})
		}
		var lateData Bytes
		var start []File
		for _, f := range files {
			if f.Path == late {
				lateData = f.Data
				continue
			}
			start = append(start, f)
		}
		if lateData == nil {
			v.Invalid = true
			return v
		}
		var jm map[string]interface{}
		json.Unmarshal([]byte(c.jsonFile()), &jm)
		jm["ProjectFiles"] = []string{"src/entry.lua"}
		jb, _ := json.Marshal(jm)
		cfgFile := File{Path: "luahelper.json", Data: Bytes(jb)}
		h := run(&Scenario{Files: append(append([]File{}, start...), cfgFile), InitOpts: allEnabled().initOpts(),
			Ops: []Op{{Kind: "fswrite", Path: late, Data: lateData}, {Kind: "deliver"}}})
		if h.Outcome != OutOK {
			return fail(h, "json-project history")
		}
		fr := run(&Scenario{Files: append(append([]File{}, files...), cfgFile), InitOpts: allEnabled().initOpts()})
		if fr.Outcome != OutOK {
			return fail(fr, "json-project fresh")
		}
		if vv := cmp("c17-history-differs-from-fresh", "json-project late-module", h.View, fr.View, ""); vv != nil {
			return vv
		}
		v.Shape = fmt.Sprintf("json-project %v %v %v %s view=%x", c.Off, c.IgnErr, c.FileTypes, late, hashString(h.ViewString()))
		v.NonTrivial = len(fr.View) > 0
	case "json":
		c := knobConfig(sc.Knobs["config"])
		withJSON := func(fs []File, text string) []File {
			return append(append([]File{}, fs...), File{Path: "luahelper.json", Data: Bytes(text)})
		}
		s := &Scenario{Files: withJSON(sc.Files, c.jsonFile()), InitOpts: allEnabled().initOpts()}
		fault, _ := sc.Knobs["read_fault"].(string)
		if fault != "" {
			// the configuration file cannot be read (or is torn): the server must fall back to the
			// client settings or refuse initialisation, never crash; no view oracle applies
			s.NoInit = true
			s.Ops = []Op{{Kind: "faults", Faults: []simfs.Fault{{Op: "ReadFile", Suffix: "luahelper.json", Nth: 1, Kind: fault, Arg: 7}}},
				{Kind: "req", Method: "initialize", Params: json.RawMessage(`{"rootUri":"file:///ws","rootPath":"/ws","initializationOptions":{"AllEnable":true,"CheckSyntax":true,"client":"vsc"}}`)},
				{Kind: "notify", Method: "initialized", Params: json.RawMessage(`{}`)},
				{Kind: "open", Path: "ok.lua"}, {Kind: "req", Method: "hover", Path: "ok.lua", Pos: &Pos{0, 7}}}
			r := run(s)
			if r.Outcome != OutOK {
				return fail(r, "config-read-fault")
			}
			if fault == "eio" || fault == "eacces" {
				// the configuration file exists but cannot be read: "ignored" means the server behaves
				// as if it were absent, i.e. the client's settings apply in full (unless it refuses
				// to initialise at all)
				ob, _ := json.Marshal(map[string]interface{}{"rootUri": "file://" + Root, "rootPath": Root, "initializationOptions": AllOn()})
				fa := run(&Scenario{Files: withJSON(sc.Files, c.jsonFile()), NoInit: true, Ops: []Op{
					{Kind: "faults", Faults: []simfs.Fault{{Op: "ReadFile", Suffix: "luahelper.json", Nth: 1, Kind: fault}}},
					{Kind: "req", Method: "initialize", Params: ob},
					{Kind: "notify", Method: "initialized", Params: json.RawMessage(`{}`)},
					{Kind: "settle"}}})
				if fa.Outcome != OutOK {
					return fail(fa, "config-read-fault (client settings)")
				}
				refused := false
				for _, a := range fa.Answers {
					if a.Method == "initialize" && a.Err != "" {
						refused = true
					}
				}
				if !refused {
					nb := run(&Scenario{Files: sc.Files, InitOpts: AllOn()})
					if nb.Outcome != OutOK {
						return fail(nb, "no-config reference")
					}
					if vv := cmp("c17-unreadable-config-not-ignored", "unreadable luahelper.json vs no luahelper.json", fa.View, nb.View, ""); vv != nil {
						return vv
					}
				}
			}
			v.Shape = "json-fault " + fault
			v.NonTrivial = r.FsFired["ReadFile."+fault] > 0
			return v
		}
		a := run(s)
		if a.Outcome != OutOK {
			return fail(a, "luahelper.json")
		}
		base := run(&Scenario{Files: withJSON(withoutIgnoredFiles(sc.Files, c), allEnabled().jsonFile()), InitOpts: allEnabled().initOpts()})
		if base.Outcome != OutOK {
			return fail(base, "luahelper.json all-enabled")
		}
		extra := ""
		if len(c.IgnHandle) > 0 {
			extra = " +ignore-analysis"
		}
		filterCfg = &c
		if vv := cmp("c17-not-a-filter", "luahelper.json", a.View, filterView(base.View, c), extra); vv != nil {
			return vv
		}
		v.Shape = fmt.Sprintf("json %v %v %v %v view=%x", c.Off, c.IgnErr, c.IgnHandle, c.FileTypes, hashString(a.ViewString()))
		v.NonTrivial = len(base.View) > 0
	case "hostile":
		settings, _ := sc.Knobs["settings"].(string)
		atInit, _ := sc.Knobs["at_init"].(bool)
		s := &Scenario{Files: sc.Files, FirstCfg: true}
		if atInit {
			var m map[string]interface{}
			json.Unmarshal([]byte(settings), &m)
			opts := AllOn()
			if lh, ok := m["luahelper"].(map[string]interface{}); ok {
				if base, ok := lh["base"].(map[string]interface{}); ok {
					for k, x := range base {
						opts[k] = x
					}
				}
			}
			s.InitOpts = opts
		} else {
			s.Ops = append(s.Ops, Op{Kind: "config", Params: json.RawMessage(settings)})
		}
		s.Ops = append(s.Ops, Op{Kind: "open", Path: "ok.lua"}, Op{Kind: "req", Method: "hover", Path: "ok.lua", Pos: &Pos{0, 7}}, Op{Kind: "req", Method: "workspaceSymbol", Arg: "cross"})
		r := run(s)
		if r.Outcome != OutOK {
			return fail(r, "malformed-settings")
		}
		v.Shape = "hostile " + hashHex(settings) + fmt.Sprint(atInit)
		v.NonTrivial = true
	case "hostile-json":
		text, _ := sc.Knobs["json"].(string)
		s := &Scenario{Files: append(append([]File{}, sc.Files...), File{Path: "luahelper.json", Data: Bytes(text)}), NoInit: true}
		s.Ops = []Op{{Kind: "req", Method: "initialize", Params: json.RawMessage(`{"rootUri":"file:///ws","rootPath":"/ws","initializationOptions":{"AllEnable":true,"CheckSyntax":true,"client":"vsc"}}`)},
			{Kind: "notify", Method: "initialized", Params: json.RawMessage(`{}`)},
			{Kind: "open", Path: "ok.lua"}, {Kind: "req", Method: "hover", Path: "ok.lua", Pos: &Pos{0, 7}}}
		r := run(s)
		if r.Outcome != OutOK {
			return fail(r, "malformed-luahelper.json")
		}
		v.Shape = "hostile-json " + hashHex(text)
		v.NonTrivial = true
	default:
		v.Invalid = true
	}
	return v
}

// specialGate tags configurations in which every check that needs the cross-file pass is off
// (precondition of a specific, separately recorded defect).
func specialGate(c C17Config) string {
	for _, t := range []int{2, 3, 10, 11, 12} {
		if !c.off(t) {
			return ""
		}
	}
	return " +cross-file-checks-all-off"
}
