package harness

import (
	"fmt"
	"math/rand"
	"os"
	"path/filepath"
	"strings"
)

// Lua text generators for the C01 workloads: valid programs, token- and byte-level mutations,
// annotation-heavy files with cyclic class / alias graphs, nesting stressors, raw bytes.

type luaGen struct {
	r     *rand.Rand
	depth int
	names []string
}

var luaKeywords = []string{"and", "break", "do", "else", "elseif", "end", "false", "for", "function", "goto", "if", "in", "local", "nil", "not", "or", "repeat", "return", "then", "true", "until", "while"}
var luaOps = []string{"+", "-", "*", "/", "//", "%", "^", "..", "==", "~=", "<", "<=", ">", ">=", "and", "or", "&", "|", "~", "<<", ">>"}

// LongName is an identifier longer than the fixed-size tables that name-matching code tends to
// use (126 < 128 < 200 < 256 < 300).
func LongName(n int) string { return "glong_" + strings.Repeat("abcdefghij", n/10+1)[:n] }

func newLuaGen(r *rand.Rand) *luaGen {
	g := &luaGen{r: r, names: []string{"a", "b", "cfg", "self", "t", "x", "gfoo", "gbar", "util", "M", "obj", "Cls"}}
	if r.Intn(6) == 0 {
		// one run in six also uses a few very long identifiers
		for _, n := range []int{126, 128, 200, 300} {
			if r.Intn(2) == 0 {
				g.names = append(g.names, LongName(n))
			}
		}
	}
	return g
}

func (g *luaGen) name() string { return g.names[g.r.Intn(len(g.names))] }

func (g *luaGen) expr() string {
	g.depth++
	defer func() { g.depth-- }()
	if g.depth > 5 {
		return g.atom()
	}
	switch g.r.Intn(14) {
	case 0, 1, 2:
		return g.atom()
	case 3:
		return g.expr() + " " + luaOps[g.r.Intn(len(luaOps))] + " " + g.expr()
	case 4:
		return []string{"not ", "-", "#", "~"}[g.r.Intn(4)] + g.expr()
	case 5:
		return g.name() + "." + g.name()
	case 6:
		return g.name() + "[" + g.expr() + "]"
	case 7:
		return g.name() + "(" + g.exprList(g.r.Intn(4)) + ")"
	case 8:
		return g.name() + ":" + g.name() + "(" + g.exprList(g.r.Intn(3)) + ")"
	case 9:
		return "{" + g.fields() + "}"
	case 10:
		return "function(" + g.params() + ") " + g.block(1+g.r.Intn(2)) + " end"
	case 11:
		return "(" + g.expr() + ")"
	case 12:
		return g.name() + ".." + g.expr()
	default:
		return "require(\"" + []string{"util", "a.b", "mod", "nofile", "x/y"}[g.r.Intn(5)] + "\")"
	}
}

func (g *luaGen) atom() string {
	switch g.r.Intn(12) {
	case 0:
		return "nil"
	case 1:
		return []string{"true", "false"}[g.r.Intn(2)]
	case 2:
		return fmt.Sprint(g.r.Intn(1000))
	case 3:
		return []string{"0x1F", "1e10", "3.14", "0x.8p1", "1LL", "2ULL", "0xffULL", "1e", "0x", "9007199254740993"}[g.r.Intn(10)]
	case 4:
		return []string{`"str"`, `'s\n'`, `"\u{1F600}"`, `"\x41\065"`, `[[long]]`, `[==[a]]b]==]`, `"中文"`, `"\z  x"`}[g.r.Intn(8)]
	case 5:
		return "..."
	default:
		return g.name()
	}
}

func (g *luaGen) exprList(n int) string {
	var xs []string
	for i := 0; i < n; i++ {
		xs = append(xs, g.expr())
	}
	return strings.Join(xs, ", ")
}

func (g *luaGen) params() string {
	n := g.r.Intn(4)
	var xs []string
	for i := 0; i < n; i++ {
		xs = append(xs, g.name())
	}
	if g.r.Intn(5) == 0 {
		xs = append(xs, "...")
	}
	return strings.Join(xs, ", ")
}

func (g *luaGen) fields() string {
	n := g.r.Intn(4)
	var xs []string
	for i := 0; i < n; i++ {
		switch g.r.Intn(3) {
		case 0:
			xs = append(xs, g.expr())
		case 1:
			xs = append(xs, g.name()+" = "+g.expr())
		default:
			xs = append(xs, "["+g.expr()+"] = "+g.expr())
		}
	}
	return strings.Join(xs, []string{", ", "; "}[g.r.Intn(2)])
}

func (g *luaGen) stat() string {
	g.depth++
	defer func() { g.depth-- }()
	if g.depth > 5 {
		return "print(" + g.atom() + ")"
	}
	switch g.r.Intn(20) {
	case 0, 1:
		return "local " + g.name() + " = " + g.expr()
	case 2:
		return "local " + g.name() + ", " + g.name() + " = " + g.exprList(1+g.r.Intn(3))
	case 3:
		return g.name() + " = " + g.expr()
	case 4:
		return g.name() + "." + g.name() + " = " + g.expr()
	case 5:
		return "if " + g.expr() + " then " + g.block(1) + " elseif " + g.expr() + " then " + g.block(1) + " else " + g.block(1) + " end"
	case 6:
		return "for i = 1, " + g.expr() + " do " + g.block(2) + " end"
	case 7:
		return "for k, v in pairs(" + g.expr() + ") do " + g.block(2) + " end"
	case 8:
		return "while " + g.expr() + " do " + g.block(1) + " end"
	case 9:
		return "repeat " + g.block(1) + " until " + g.expr()
	case 10:
		return "function " + g.name() + "(" + g.params() + ") " + g.block(2) + " end"
	case 11:
		return "function " + g.name() + "." + g.name() + ":" + g.name() + "(" + g.params() + ") " + g.block(2) + " end"
	case 12:
		return "local function " + g.name() + "(" + g.params() + ") " + g.block(2) + " end"
	case 13:
		return "return " + g.exprList(g.r.Intn(3))
	case 14:
		return "goto " + g.name() + " ::" + g.name() + "::"
	case 15:
		return "do " + g.block(2) + " end"
	case 16:
		return "local " + g.name() + " <const> = " + g.expr()
	case 17:
		return g.annotation()
	case 18:
		return "-- comment " + g.name() + "\n--[[ block\n comment ]]"
	default:
		return g.name() + "(" + g.exprList(g.r.Intn(3)) + ")"
	}
}

func (g *luaGen) block(n int) string {
	var xs []string
	for i := 0; i < n; i++ {
		xs = append(xs, g.stat())
	}
	return strings.Join(xs, "\n")
}

var annTypes = []string{"Handler", "number", "string", "boolean", "table", "any", "Cls", "A", "B", "C", "Alias1", "Alias2", "E1", "fun(a:number):string", "table<string, A>", "A[]", "A|B|nil", "(A|B)[]", "fun()", "table<Alias1, Alias2[]>"}

func (g *luaGen) annType() string { return annTypes[g.r.Intn(len(annTypes))] }

func (g *luaGen) annotation() string {
	switch g.r.Intn(20) {
	case 0:
		return "---@class " + g.cls() + " : " + g.cls() + "\n---@field " + g.name() + " " + g.annType() + "\nlocal " + g.name() + " = {}"
	case 1:
		return "---@class " + g.cls() + " : " + g.cls() + ", " + g.cls()
	case 2:
		return "---@alias " + g.alias() + " " + g.alias()
	case 3:
		return "---@alias " + g.alias() + " " + g.annType() + " | " + g.alias()
	case 4:
		return "---@type " + g.annType() + "\nlocal " + g.name() + " = " + g.expr()
	case 5:
		return "---@param " + g.name() + " " + g.annType() + "\n---@return " + g.annType() + "\nfunction " + g.name() + "(" + g.params() + ") end"
	case 6:
		return "---@generic T : " + g.cls() + "\n---@param p T\n---@return T\nlocal function " + g.name() + "(p) return p end"
	case 7:
		return "---@overload fun(" + g.name() + ":" + g.annType() + "):" + g.annType()
	case 8:
		return "---@vararg " + g.annType()
	case 9:
		return "---@enum E1\nlocal E1 = {\n  A = 1,\n  B = (2),\n  C = (A),\n  D = ((E1.A)),\n}"
	case 10:
		return "---@enum " + g.cls() + "\n" + g.name() + " = { X = (" + g.expr() + "), Y = " + g.expr() + " }"
	case 11:
		return "---@type " + g.alias() + "\nlocal v = nil\nprint(v." + g.name() + ")\nv:" + g.name() + "()"
	case 12:
		return "---@field " + g.name() + " fun(" + strings.Repeat("(", g.r.Intn(4)) + g.annType()
	case 13:
		return "---@" + []string{"class", "type", "alias", "param", "return", "field", "generic", "overload", "enum", "vararg"}[g.r.Intn(10)] + " " + []string{"", ":", "|", "<", "[]", "fun(", "table<", ",", "@", "(", ")"}[g.r.Intn(11)]
	case 14:
		return "---@class " + g.cls() + "\n" + g.cls() + " = " + g.cls()
	case 18:
		// an enum section (---@enum start ... ---@enum end): values are compared pairwise
		v := []string{"1", "(1)", "((2))", "A", "(A)", "\"s\"", "(\"s\")", "1.5", "(g.x)", "-1", "(-1)"}
		var sb strings.Builder
		sb.WriteString("---@enum start\n")
		for i := 0; i < 2+g.r.Intn(4); i++ {
			pre := ""
			if g.r.Intn(2) == 0 {
				pre = "local "
			}
			sb.WriteString(pre + "E" + fmt.Sprint(i) + "_" + g.name() + " = " + v[g.r.Intn(len(v))] + "\n")
		}
		sb.WriteString("---@enum end")
		return sb.String()
	case 15:
		// function-typed alias (often defined in one file and used in another: names are shared)
		return "---@alias Handler fun(a:number, b:" + g.annType() + "):" + g.annType() + "\n---@alias Alias2 Handler"
	case 16:
		return "---@param cb Handler\n---@param other Alias2\n---@return Handler\nfunction " + g.name() + "(cb, other) return cb(1, 2) end\n---@type Handler\nlocal hh = nil\nhh(1, 2)\nprint(hh(3).x)"
	case 17:
		// table constructors with keys (definition / hover on a key of a constructor)
		return g.name() + " = { " + g.name() + " = " + g.atom() + ", " + g.name() + " = { " + g.name() + " = 1 } }\nlocal lt = { kk = " + g.expr() + ", " + g.name() + " = nil }\nprint(lt.kk)"
	case 19:
		// generic methods in the fluent style: the generic parameter is the receiver, a later or
		// the only parameter; called with a colon and with a dot, results used further on
		c := "GBox" + fmt.Sprint(g.r.Intn(3))
		return "---@class " + c + "\nlocal " + c + " = {}\n---@generic T\n---@param self T\n---@param n string\n---@return T\nfunction " + c + ":set(n) return self end\n" +
			"---@generic T\n---@param a number\n---@param b T\n---@return T\nfunction " + c + ".pick(a, b) return b end\n" +
			"local gb1 = " + c + ":set(\"a\")\nlocal gb2 = gb1:set(\"b\"):set(\"c\")\nlocal gb3 = " + c + ".pick(1, gb2)\nlocal gb4 = " + c + ".set(" + c + ", \"d\")\nlocal gb5 = " + c + ":pick(gb1)\nprint(gb1, gb2.x, gb3, gb4, gb5)"
	default:
		return "---@type table<" + g.annType() + ", " + g.annType() + ">[]\nlocal " + g.name() + " = {}\nprint(" + g.name() + "[1]." + g.name() + ")"
	}
}

func (g *luaGen) cls() string   { return []string{"A", "B", "C", "Cls", "E1"}[g.r.Intn(5)] }
func (g *luaGen) alias() string { return []string{"Alias1", "Alias2", "Alias3", "A"}[g.r.Intn(4)] }

// Program returns a (mostly) valid Lua chunk.
func (g *luaGen) Program(stats int) string {
	var sb strings.Builder
	for i := 0; i < stats; i++ {
		g.depth = 0
		sb.WriteString(g.stat())
		sb.WriteString("\n")
	}
	return sb.String()
}

// CyclicAnnotations returns a file whose class / alias graph is cyclic or mutually recursive.
func (g *luaGen) CyclicAnnotations() string {
	var sb strings.Builder
	variants := []string{
		"---@alias Alias1 Alias2\n---@alias Alias2 Alias1\n---@type Alias1\nlocal v1 = nil\nprint(v1.x)\nv1:m()\n",
		"---@alias Alias1 Alias1\n---@type Alias1\nlocal v2 = nil\nprint(v2.f)\n",
		"---@class A : B\n---@field fa number\n---@class B : C\n---@field fb number\n---@class C : A\n---@field fc number\n---@type A\nlocal oa = nil\nprint(oa.fc, oa.zz)\noa:m()\n",
		"---@class A : A\n---@type A\nlocal ob = nil\nprint(ob.q)\n",
		"---@alias Alias1 Alias2[]\n---@alias Alias2 table<string, Alias1>\n---@type Alias1\nlocal oc = nil\nprint(oc[1].k.j)\n",
		"---@class A : Alias1\n---@alias Alias1 A\n---@type Alias1\nlocal od = nil\nprint(od.x.y.z)\n",
		"---@alias Alias1 fun(a:Alias1):Alias1\n---@type Alias1\nlocal oe = nil\nprint(oe(1).x)\n",
		"---@enum E1\nlocal E1 = {\n  A = (1),\n  B = (E1.A),\n  C = ((B)),\n}\nprint(E1.B)\n",
		"---@class A\n---@field next A\n---@type A\nlocal of = nil\nprint(of.next.next.next.next.k)\n",
		"---@generic T : T\n---@param p T\n---@return T\nfunction idt(p) return p end\nlocal r = idt(idt)\nprint(r.x)\n",
		// the same graphs reached from a table constructor / an assignment (the opt-in type checks
		// of luahelper.json walk the class and its parents for those)
		"---@class A : B\n---@field fa number\n---@class B : A\n---@field fb string\n---@type A\nlocal ta = { fa = 1, fb = 2, zz = 3 }\nta.fa = \"s\"\nta.qq = 1\nprint(ta)\n",
		"---@class A : A\n---@field self A\n---@type A\nlocal tb = { self = {} }\ntb.self = 1\nprint(tb.self.self)\n",
	}
	n := 1 + g.r.Intn(3)
	for i := 0; i < n; i++ {
		sb.WriteString(variants[g.r.Intn(len(variants))])
	}
	return sb.String()
}

// Nested returns a deeply (but boundedly) nested construct.
func (g *luaGen) Nested(depth int) string {
	switch g.r.Intn(6) {
	case 0:
		return "local x = " + strings.Repeat("(", depth) + "1" + strings.Repeat(")", depth) + "\n"
	case 1:
		return "local t = " + strings.Repeat("{", depth) + strings.Repeat("}", depth) + "\n"
	case 2:
		return strings.Repeat("do ", depth) + strings.Repeat("end ", depth) + "\n"
	case 3:
		return "local f = " + strings.Repeat("function() return ", depth) + "1" + strings.Repeat(" end", depth) + "\n"
	case 4:
		return "local s = a" + strings.Repeat(".b", depth) + "\n" + "a" + strings.Repeat("[1]", depth) + " = 1\n"
	default:
		return "---@type " + strings.Repeat("table<string, ", depth) + "number" + strings.Repeat(">", depth) + "\nlocal deep = nil\nprint(deep" + strings.Repeat(".k", depth%40) + ")\n"
	}
}

var luaTokenRe = strings.NewReplacer()

// tokenMutate applies single-token edits: deletion, duplication, swap, keyword substitution.
func tokenMutate(r *rand.Rand, text string, n int) string {
	toks := strings.Fields(text)
	if len(toks) < 2 {
		return text + " end"
	}
	// keep line structure roughly: work on whitespace-separated tokens of each line
	lines := strings.Split(text, "\n")
	for k := 0; k < n; k++ {
		li := r.Intn(len(lines))
		ts := strings.Fields(lines[li])
		if len(ts) == 0 {
			continue
		}
		i := r.Intn(len(ts))
		switch r.Intn(6) {
		case 0:
			ts = append(ts[:i], ts[i+1:]...)
		case 1:
			ts = append(ts[:i+1], ts[i:]...)
		case 2:
			j := r.Intn(len(ts))
			ts[i], ts[j] = ts[j], ts[i]
		case 3:
			ts[i] = luaKeywords[r.Intn(len(luaKeywords))]
		case 4:
			ts[i] = []string{"(", ")", "{", "}", "[", "]", "[[", "]]", "--[[", "\"", "'", "::", "...", "=", ",", "---@"}[r.Intn(16)]
		default:
			ts[i] = ts[i] + []string{"(", ".", ":", "[", "\"", "="}[r.Intn(6)]
		}
		lines[li] = strings.Join(ts, " ")
	}
	return strings.Join(lines, "\n")
}

// byteMutate flips, inserts and deletes bytes.
func byteMutate(r *rand.Rand, b []byte, n int) []byte {
	out := append([]byte(nil), b...)
	for k := 0; k < n; k++ {
		if len(out) == 0 {
			out = append(out, byte(r.Intn(256)))
			continue
		}
		i := r.Intn(len(out))
		switch r.Intn(5) {
		case 0:
			out[i] = byte(r.Intn(256))
		case 1:
			out = append(out[:i], out[i+1:]...)
		case 2:
			out = append(out[:i], append([]byte{byte(r.Intn(256))}, out[i:]...)...)
		case 3:
			out[i] = []byte{0, '\r', '\n', '"', '\\', '[', ']', '-', 0xff, 0xc0, 0xe2, 0xf0}[r.Intn(12)]
		default:
			j := r.Intn(len(out))
			if i > j {
				i, j = j, i
			}
			if j-i < 64 {
				out = append(out[:j], append(append([]byte(nil), out[i:j]...), out[j:]...)...)
			}
		}
	}
	return out
}

var corpus [][]byte

// loadCorpus reads the repository's own testdata (from the scratch copy next to the worker) as
// mutation seeds.  Files over 32 KiB are skipped.
func loadCorpus() [][]byte {
	if corpus != nil {
		return corpus
	}
	corpus = [][]byte{[]byte("print(1)\n")}
	var paths []string
	filepath.Walk("lsp/testdata", func(p string, info os.FileInfo, err error) error {
		if err == nil && !info.IsDir() && strings.HasSuffix(p, ".lua") && info.Size() < 32<<10 {
			paths = append(paths, p)
		}
		return nil
	})
	for _, p := range paths {
		if b, err := os.ReadFile(p); err == nil {
			corpus = append(corpus, b)
		}
	}
	return corpus
}
