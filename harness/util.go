package harness

import (
	"fmt"
	"hash/fnv"

	"simrt"
)

type simrtConfig = simrt.Config

func hashString(s string) uint64 {
	h := fnv.New64a()
	h.Write([]byte(s))
	return h.Sum64()
}

func hashHex(s string) string { return fmt.Sprintf("%012x", hashString(s)&0xffffffffffff) }

func simRunnable() int { return simrt.Runnable() }
