package harness

import (
	"fmt"
	"unicode/utf8"
)

// Reference text-buffer model with LSP semantics: zero-based lines ended by LF, CRLF or CR;
// characters counted in UTF-16 code units; a character offset past the end of a line clamps to
// the end of that line (before its terminator).  The document is kept as UTF-8 bytes.

// Pos is an LSP position.
type Pos struct {
	Line int `json:"line"`
	Char int `json:"character"`
}

// Edit is one content change: a range replacement, or a full replacement when Full is set.
type Edit struct {
	Full  bool   `json:"full,omitempty"`
	Start Pos    `json:"start"`
	End   Pos    `json:"end"`
	Text  string `json:"text"`
}

// lineStarts returns the byte offset of every line start and, in parallel, the byte offset of
// the end of the line's content (before its terminator).
func lineStarts(b []byte) (starts, ends []int) {
	starts = append(starts, 0)
	for i := 0; i < len(b); i++ {
		switch b[i] {
		case '\n':
			ends = append(ends, i)
			starts = append(starts, i+1)
		case '\r':
			ends = append(ends, i)
			if i+1 < len(b) && b[i+1] == '\n' {
				i++
			}
			starts = append(starts, i+1)
		}
	}
	ends = append(ends, len(b))
	return
}

// NumLines returns the number of lines of the document (an empty document has one line).
func NumLines(b []byte) int {
	s, _ := lineStarts(b)
	return len(s)
}

// LineLen16 returns the length of a line in UTF-16 code units.
func LineLen16(b []byte, line int) int {
	s, e := lineStarts(b)
	if line < 0 || line >= len(s) {
		return 0
	}
	return utf16Len(b[s[line]:e[line]])
}

func utf16Len(b []byte) int {
	n := 0
	for len(b) > 0 {
		r, sz := utf8.DecodeRune(b)
		if r >= 0x10000 {
			n += 2
		} else {
			n++
		}
		b = b[sz:]
	}
	return n
}

// OffsetOf maps a position to a byte offset.  A line that does not exist is the end of the
// document; a character past the line end clamps (LSP 3.x: "defaults back to the line length").
// A position in the middle of a surrogate pair maps to the start of that character.
func OffsetOf(b []byte, p Pos) (int, error) {
	s, e := lineStarts(b)
	if p.Line < 0 || p.Char < 0 {
		return 0, fmt.Errorf("negative position")
	}
	if p.Line >= len(s) {
		// a line past the last one: the end of the document. The specification only spells out the
		// character rule; this is what the reference implementation of LSP text documents
		// (vscode-languageserver-textdocument, offsetAt) does, and what a client that addresses
		// "up to the end" as (lineCount, 0) means
		return len(b), nil
	}
	off := s[p.Line]
	units := 0
	for off < e[p.Line] && units < p.Char {
		r, sz := utf8.DecodeRune(b[off:e[p.Line]])
		w := 1
		if r >= 0x10000 {
			w = 2
		}
		if units+w > p.Char {
			break // inside a surrogate pair
		}
		units += w
		off += sz
	}
	return off, nil
}

// Apply applies one edit and returns the new document.
func Apply(b []byte, ed Edit) ([]byte, error) {
	if ed.Full {
		return []byte(ed.Text), nil
	}
	so, err := OffsetOf(b, ed.Start)
	if err != nil {
		return nil, err
	}
	eo, err := OffsetOf(b, ed.End)
	if err != nil {
		return nil, err
	}
	if eo < so {
		return nil, fmt.Errorf("end before start")
	}
	out := make([]byte, 0, len(b)+len(ed.Text))
	out = append(out, b[:so]...)
	out = append(out, ed.Text...)
	out = append(out, b[eo:]...)
	return out, nil
}

// PosOf maps a byte offset (on a character boundary) to a position.
func PosOf(b []byte, off int) Pos {
	s, e := lineStarts(b)
	line := 0
	for line+1 < len(s) && s[line+1] <= off {
		line++
	}
	end := off
	if end > e[line] {
		end = e[line]
	}
	return Pos{line, utf16Len(b[s[line]:end])}
}
