package harness

import (
	"encoding/base64"
	"encoding/json"
	"unicode/utf8"

	"simrt"
	"simrt/simfs"
)

// Root is the fixed root of the simulated workspace.
const Root = "/ws"

// Bytes is file content that survives JSON (valid UTF-8 is kept readable, anything else is
// base64).
type Bytes []byte

func (b Bytes) MarshalJSON() ([]byte, error) {
	if utf8.Valid(b) {
		return json.Marshal(string(b))
	}
	return json.Marshal(map[string]string{"b64": base64.StdEncoding.EncodeToString(b)})
}

func (b *Bytes) UnmarshalJSON(d []byte) error {
	var s string
	if err := json.Unmarshal(d, &s); err == nil {
		*b = []byte(s)
		return nil
	}
	var m map[string]string
	if err := json.Unmarshal(d, &m); err != nil {
		return err
	}
	x, err := base64.StdEncoding.DecodeString(m["b64"])
	*b = x
	return err
}

// File is one file of the initial disk tree.
type File struct {
	Path string `json:"path"` // relative to Root
	Data Bytes  `json:"data"`
	Link string `json:"link,omitempty"` // symlink target instead of data
}

// Op is one step of a scenario.  High-level client operations are interpreted by the engine's
// client model, so that dropping an earlier op during minimisation leaves later ones meaningful.
type Op struct {
	Kind string `json:"kind"`
	// open | change | save | close | fswrite | fsremove | deliver | event | req | notify | config |
	// folders | step | settle | clock | faults | clearfaults | net | cancel | closeconn | touch
	Path   string          `json:"path,omitempty"`
	Text   *string         `json:"text,omitempty"`   // open: explicit text instead of the disk content
	Edits  []Edit          `json:"edits,omitempty"`  // change
	Data   Bytes           `json:"data,omitempty"`   // fswrite
	Method string          `json:"method,omitempty"` // req / notify
	Pos    *Pos            `json:"pos,omitempty"`    // req
	Arg    string          `json:"arg,omitempty"`    // rename: new name; workspaceSymbol: query
	Params json.RawMessage `json:"params,omitempty"` // raw params (overrides Path/Pos)
	N      int             `json:"n,omitempty"`      // step: count; deliver: max events; clock: milliseconds; event: type; cancel: op index
	Async  bool            `json:"async,omitempty"`  // send without settling afterwards
	NoEvt  bool            `json:"noevt,omitempty"`  // save / fswrite / fsremove: the watcher stays silent
	// save: only the didSave message (with Text if set); the disk write is a separate fswrite op
	// (C10's sequential references place the editor's disk write and its notification independently)
	NoWrite bool          `json:"nowrite,omitempty"`
	Spell   int           `json:"spell,omitempty"` // how this message spells the document URI: 0 percent-encoded like VS Code, 1 not encoded at all, 2 encoded with %5C for the separators below the root, 3 raw with backslashes below the root
	Faults  []simfs.Fault `json:"faults,omitempty"`
	Net     string        `json:"net,omitempty"` // deliver:<json> | readerr | faildial:<n> | failwrite:<n>
}

// Scenario is everything that determines one simulated run.
type Scenario struct {
	Prop     string                 `json:"prop"`
	Seed     int64                  `json:"seed"`
	Note     string                 `json:"note,omitempty"`
	Files    []File                 `json:"files"`
	InitOpts map[string]interface{} `json:"init_opts"`           // initializationOptions (nil = client default: all checks on)
	NoInit   bool                   `json:"no_init,omitempty"`   // do not send initialize/initialized automatically
	Folders  []string               `json:"folders,omitempty"`   // workspaceFolders (absolute paths)
	FirstCfg bool                   `json:"first_cfg,omitempty"` // send the start-up didChangeConfiguration the server swallows
	Eager    bool                   `json:"eager,omitempty"`     // the client does not wait after `initialized` (nor after its start-up configuration notification) before going on
	// Plugin: the client names its installation directory (PluginPath, as the real VS Code client
	// always does); the engine provides /plug/server/meta/*.lua there.  Only then does the server
	// distinguish documents inside and outside the workspace.
	Plugin bool         `json:"plugin,omitempty"`
	Ops    []Op         `json:"ops"`
	Sched  simrt.Config `json:"sched"`
	// Extra schedules for oracles that compare several runs of the same scenario (C09).
	Scheds []simrt.Config `json:"scheds,omitempty"`
	// Class expected on replay (filled in when a violation is written out).
	Expect string `json:"expect,omitempty"`
	Detail string `json:"detail,omitempty"`
	// Burst marks [from,to) op indexes that C10 treats as the concurrent burst.
	Burst [2]int `json:"burst,omitempty"`
	// Knobs is free-form generator information kept for evidence.
	Knobs map[string]interface{} `json:"knobs,omitempty"`
}

// Clone deep-copies a scenario through JSON.
func (s *Scenario) Clone() *Scenario {
	b, _ := json.Marshal(s)
	var c Scenario
	json.Unmarshal(b, &c)
	return &c
}

// AllFlags are the positional check switches of the client's initializationOptions.
var AllFlags = []string{"CheckSyntax", "CheckNoDefine", "CheckAfterDefine", "CheckLocalNoUse", "CheckTableDuplicateKey", "CheckReferNoFile", "CheckAssignParamNum", "CheckLocalDefineParamNum", "CheckGotoLable", "CheckFuncParam", "CheckImportModuleVar", "CheckIfNotVar", "CheckFunctionDuplicateParam", "CheckBinaryExpressionDuplicate", "CheckErrorOrAlwaysTrue", "CheckErrorAndAlwaysFalse", "CheckNoUseAssign", "CheckAnnotateType", "CheckDuplicateIf", "CheckSelfAssign", "CheckFloatEq", "CheckClassField", "CheckConstAssign", "CheckFuncParamType", "CheckFuncReturnType"}

// AllOn returns initializationOptions with every check enabled.
func AllOn() map[string]interface{} {
	o := map[string]interface{}{"AllEnable": true, "client": "vsc"}
	for _, k := range AllFlags {
		o[k] = true
	}
	return o
}
