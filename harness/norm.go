package harness

import (
	"encoding/json"
	"sort"
)

// canon sorts every array recursively by the canonical encoding of its elements: every array
// in the answers compared here (locations, highlights, symbols and their children, completion
// items, diagnostics, related information) is an unordered collection in the protocol.  The one
// exception is made in NormResult: workspace/symbol, which the server sorts and cuts itself.
func canon(v interface{}) interface{} {
	switch x := v.(type) {
	case []interface{}:
		type kv struct {
			k string
			v interface{}
		}
		items := make([]kv, 0, len(x))
		for _, e := range x {
			c := canon(e)
			b, _ := json.Marshal(c)
			items = append(items, kv{string(b), c})
		}
		sort.SliceStable(items, func(i, j int) bool { return items[i].k < items[j].k })
		out := make([]interface{}, len(items))
		for i := range items {
			out[i] = items[i].v
		}
		return out
	case map[string]interface{}:
		for k, e := range x {
			x[k] = canon(e)
		}
		return x
	}
	return v
}

// NormJSON returns the canonical form of a JSON text (unparseable text is returned unchanged).
func NormJSON(s string) string {
	if s == "" {
		return ""
	}
	var v interface{}
	if err := json.Unmarshal([]byte(s), &v); err != nil {
		return s
	}
	b, _ := json.Marshal(canon(v))
	return string(b)
}

func stripData(v interface{}) {
	switch x := v.(type) {
	case []interface{}:
		for _, e := range x {
			stripData(e)
		}
	case map[string]interface{}:
		delete(x, "data")
		for _, e := range x {
			stripData(e)
		}
	}
}

// NormResult canonicalises the result of a request.  Completion items lose their `data`
// member: it is an index into the server's per-request completion cache and legitimately
// differs between otherwise identical answers.
func NormResult(method, s string) string {
	if s == "" {
		return ""
	}
	var v interface{}
	if err := json.Unmarshal([]byte(s), &v); err != nil {
		return s
	}
	if method == "textDocument/completion" {
		stripData(v)
	}
	// an empty list and null are the same answer to a client ("nothing here"); the server returns
	// either depending on whether a slice was ever allocated on the path taken
	if arr, ok := v.([]interface{}); ok && len(arr) == 0 {
		return "null"
	}
	if arr, ok := v.([]interface{}); ok && method == "workspace/symbol" {
		// the server sorts workspace symbols itself (score, then file, position and name) and cuts
		// the list: here the order of the answer is part of the result
		for i := range arr {
			arr[i] = canon(arr[i])
		}
		b, _ := json.Marshal(arr)
		return string(b)
	}
	b, _ := json.Marshal(canon(v))
	return string(b)
}
