package harness

import (
	"encoding/json"
	"fmt"
	"math/rand"
	"os"
	"regexp"
	"sort"
	"strconv"
	"strings"
	"testing"
)

// C10 — requests that the transport runs concurrently are safe and serialisable.
//
// A burst of 2-5 messages is sent without waiting; the seeded scheduler interleaves the handler
// goroutines at every lock, channel operation, pool hand-off and handler entry.  Oracles:
// (1) the Go race detector (worker built with -race, the scheduler's own hand-offs hidden from
// it) reports no conflicting access inside server code; (2) no crash, no deadlock; (3) every
// answer equals the answer the same request gets in some sequential order of the same messages
// (all permutations of the burst are executed sequentially on the real code as references).

func init() { register(&Property{ID: "C10", Gen: genC10, Check: checkC10}) }

var c10Texts = map[string][]string{
	"a.lua": {
		"gfoo = 1\nfunction gfn(a, b)\n  return a + b\nend\nlocal la = gfoo\nprint(la)\n",
		"gfoo = 2\nlocal zz = 3\nfunction gfn(a)\n  return a\nend\nprint(zz, gfoo)\n",
		"gfoo = 1\nfunction gfn(a, b\n",
		"local only = 1\nprint(only)\ngbar = only\n",
	},
	"b.lua": {
		"print(gfoo)\nlocal r = gfn(1, 2)\nprint(r)\n",
		// a table whose members come from a metatable __index: resolving it makes the analysis merge
		// one table's members into the other's (a write performed by a query)
		"local base = { bx = 1, by = 2 }\nfunction base.bf(a) return a end\nlocal derived = { dz = 3 }\nlocal obj = setmetatable(derived, { __index = base })\nprint(obj.bx, obj.dz, derived.by)\nobj.bf(1)\n",
		"local base = { bx = 1, by = 2 }\nfunction base.bf(a) return a end\nlocal derived = { dz = 3 }\nlocal obj = setmetatable(derived, { __index = base })\nprint(obj.bx, obj.dz, derived.by)\nobj.bf(1)\n",
		"local q = gfoo\nprint(q, gfn(1, 2))\n",
		"print(gbar)\n",
	},
	"sub/c.lua": {
		"local m = require(\"a\")\nprint(m, gfoo)\n",
		"gthird = gfoo\n",
	},
	// a document outside every workspace folder (only meaningful when the client names its
	// plugin path: without it the server treats every path as inside)
	"/outside/o.lua": {
		"goutside = 1\nprint(gfoo, goutside)\nfunction outfn(a)\n  return a\nend\n",
		"print(gfn(1, 2))\nlocal oo = 2\nprint(oo)\n",
	},
}

func genC10(seed int64, tier string) *Scenario {
	r := rand.New(rand.NewSource(seed))
	sc := &Scenario{Prop: "C10", Seed: seed, Knobs: map[string]interface{}{}}
	names := []string{"a.lua", "b.lua", "sub/c.lua"}
	// a client that goes on right after `initialized`: whatever the start-up leaves running overlaps
	// the first messages
	sc.Eager = r.Intn(4) == 0
	if r.Intn(2) == 0 {
		sc.Plugin = true
		names = append(names, "/outside/o.lua")
		sc.Knobs["plugin"] = true
	}
	cur := map[string]string{}
	for _, n := range names {
		t := c10Texts[n][0]
		if r.Intn(4) == 0 {
			t = c10Texts[n][r.Intn(len(c10Texts[n]))]
		}
		cur[n] = t
		sc.Files = append(sc.Files, File{Path: n, Data: Bytes(t)})
	}
	// "meta" profile: b.lua is the metatable text and most readers of the burst look at the derived
	// table (queries that make the analysis write shared state); bursts may then consist of readers
	// only — requests overlapping each other are as legitimate as requests overlapping an edit
	meta := r.Intn(3) == 0
	if meta {
		cur["b.lua"] = c10Texts["b.lua"][1]
		for i := range sc.Files {
			if sc.Files[i].Path == "b.lua" {
				sc.Files[i].Data = Bytes(cur["b.lua"])
			}
		}
		sc.Knobs["meta"] = true
	}
	open := map[string]bool{}
	for _, n := range names {
		if n == "a.lua" || (meta && n == "b.lua") || r.Intn(3) > 0 {
			// (an eager client does not wait for these either: the burst then overlaps the start-up)
			sc.Ops = append(sc.Ops, Op{Kind: "open", Path: n, Async: sc.Eager})
			open[n] = true
		}
	}
	// the start-up configuration message that the server swallows by design
	sc.FirstCfg = true
	k := 2 + r.Intn(3)
	if tier == "thorough" && r.Intn(4) == 0 {
		k = 5
	}
	resolveProfile := r.Intn(4) == 0
	complOp := -1
	if resolveProfile {
		// the client has received a completion list (behind an `=`: the function entry then resolves
		// to a snippet that depends on flags kept in the completion cache) and resolves an item of
		// it while the next completion request is already on its way
		sc.Ops = append(sc.Ops, Op{Kind: "change", Path: "a.lua", Edits: []Edit{{Full: true, Text: "gfoo = 1\nlocal handler = func\nlocal other = gf\n"}}},
			Op{Kind: "req", Method: "completion", Path: "a.lua", Pos: &Pos{1, 20}})
		complOp = len(sc.Ops) - 1
		cur["a.lua"] = "gfoo = 1\nlocal handler = func\nlocal other = gf\n"
		sc.Knobs["resolve"] = true
	}
	dirtyEvent := !resolveProfile && r.Intn(5) == 0
	if dirtyEvent {
		// a.lua has unsaved edits when the burst begins, and the burst contains the watcher's report
		// about that very file (the delayed echo of an earlier save, a checkout): queries and edits
		// right behind it must see the buffer's analysis, as in some sequential order
		t := c10Texts["a.lua"][r.Intn(len(c10Texts["a.lua"]))]
		sc.Ops = append(sc.Ops, Op{Kind: "change", Path: "a.lua", Edits: []Edit{{Full: true, Text: t + "local unsaved_edit = 1\nprint(unsaved_edit)\n"}}})
		cur["a.lua"] = t + "local unsaved_edit = 1\nprint(unsaved_edit)\n"
		sc.Knobs["dirty_event"] = true
	}
	from := len(sc.Ops)
	writers := 0
	lastReader := ""
	var openList []string
	for n := range open {
		openList = append(openList, n)
	}
	sort.Strings(openList)
	lastDoc := ""
	for i := 0; i < k; i++ {
		n := openList[r.Intn(len(openList))]
		if lastDoc != "" && open[lastDoc] && r.Intn(10) < 6 {
			n = lastDoc // queries and edits on the same document are what races on its state
		}
		lastDoc = n
		pos := identPositions(cur[n])
		p := Pos{r.Intn(4), r.Intn(8)}
		if len(pos) > 0 && r.Intn(5) > 0 {
			p = pos[r.Intn(len(pos))]
		}
		if dirtyEvent && i == 0 {
			sc.Ops = append(sc.Ops, Op{Kind: "event", Path: "a.lua", Async: true})
			writers++
			lastDoc = "a.lua"
			continue
		}
		if resolveProfile && i < 2 {
			if i == 0 {
				sc.Ops = append(sc.Ops, Op{Kind: "req", Method: "resolve", N: r.Intn(40), Arg: strconv.Itoa(complOp), Async: true})
			} else {
				cp := []Pos{{0, 1}, {2, 16}, {1, 20}, {2, 0}}[r.Intn(4)]
				sc.Ops = append(sc.Ops, Op{Kind: "req", Method: "completion", Path: "a.lua", Pos: &cp, Async: true})
			}
			continue
		}
		wantWriter := (i == k-1 && writers == 0 && !meta && !resolveProfile) || r.Intn(5) < 2
		if !wantWriter {
			m := []string{"hover", "definition", "references", "rename", "documentSymbol", "workspaceSymbol", "completion", "highlight", "varColor", "hover", "references", "completion", "signatureHelp", "documentColor"}[r.Intn(14)]
			if meta && r.Intn(3) > 0 {
				n = "b.lua"
				m = []string{"hover", "definition", "completion"}[r.Intn(3)]
				var dpos []Pos
				for _, q := range identPositions(cur[n]) {
					if q.Line >= 3 {
						dpos = append(dpos, q)
					}
				}
				if len(dpos) > 0 {
					p = dpos[r.Intn(len(dpos))]
				}
			}
			if lastReader != "" && r.Intn(4) == 0 {
				m = lastReader // two requests of the same kind in flight (fast typing)
			}
			lastReader = m
			if m == "completion" || m == "signatureHelp" {
				// a completion needs a typed prefix: put the cursor inside or at the end of an identifier
				if ends := identEndPositions(cur[n]); len(ends) > 0 {
					p = ends[r.Intn(len(ends))]
				}
			}
			op := Op{Kind: "req", Method: m, Path: n, Pos: &p, Async: true}
			if m == "workspaceSymbol" {
				op.Arg = "g"
			}
			sc.Ops = append(sc.Ops, op)
			continue
		}
		writers++
		switch r.Intn(9) {
		case 0, 1, 2, 3:
			t := c10Texts[n][r.Intn(len(c10Texts[n]))]
			sc.Ops = append(sc.Ops, Op{Kind: "change", Path: n, Edits: []Edit{{Full: true, Text: t}}, Async: true})
			cur[n] = t
		case 4:
			sc.Ops = append(sc.Ops, Op{Kind: "save", Path: n, NoEvt: true, Async: true})
		case 5:
			// a watched-file event for another file
			o := names[r.Intn(len(names))]
			if !open[o] {
				t := c10Texts[o][r.Intn(len(c10Texts[o]))]
				sc.Ops = append(sc.Ops, Op{Kind: "fswrite", Path: o, Data: Bytes(t)}, Op{Kind: "deliver", Async: true})
				i++
			} else {
				sc.Ops = append(sc.Ops, Op{Kind: "event", Path: o, Async: true})
			}
		case 6:
			// close and (later) re-open
			if len(openList) > 1 {
				sc.Ops = append(sc.Ops, Op{Kind: "close", Path: n, Async: true})
				delete(open, n)
				openList = nil
				for x := range open {
					openList = append(openList, x)
				}
				sort.Strings(openList)
			} else {
				sc.Ops = append(sc.Ops, Op{Kind: "save", Path: n, NoEvt: true, Async: true})
			}
		case 7:
			for _, o := range names {
				if !open[o] {
					sc.Ops = append(sc.Ops, Op{Kind: "open", Path: o, Async: true})
					open[o] = true
					openList = append(openList, o)
					sort.Strings(openList)
					break
				}
			}
		default:
			cfg := map[string]interface{}{"luahelper": map[string]interface{}{"base": map[string]interface{}{"ReferenceMaxNum": 100 + r.Intn(100), "ReferenceDefineFlag": r.Intn(2) == 0, "PreviewFieldsNum": 10 + r.Intn(10)},
				"Warn": map[string]interface{}{"AllEnable": true, "CheckSyntax": true, "CheckNoDefine": r.Intn(2) == 0, "CheckLocalNoUse": r.Intn(2) == 0}}}
			b, _ := json.Marshal(cfg)
			sc.Ops = append(sc.Ops, Op{Kind: "config", Params: b, Async: true})
		}
	}
	to := len(sc.Ops)
	sc.Burst = [2]int{from, to}
	sc.Ops = append(sc.Ops, Op{Kind: "settle"})
	// post-burst probes: the state the burst left behind
	for _, n := range openList {
		pos := identPositions(cur[n])
		if len(pos) > 0 {
			p := pos[r.Intn(len(pos))]
			sc.Ops = append(sc.Ops, Op{Kind: "req", Method: "hover", Path: n, Pos: &p})
			sc.Ops = append(sc.Ops, Op{Kind: "req", Method: "definition", Path: n, Pos: &p})
		}
		sc.Ops = append(sc.Ops, Op{Kind: "req", Method: "documentSymbol", Path: n})
	}
	sc.Ops = append(sc.Ops, Op{Kind: "req", Method: "workspaceSymbol", Arg: "g"})
	// concurrent schedule: only handler interleaving varies; map order and pool width are pinned
	c := RandomSched(r)
	c.MapPolicy = "sorted"
	c.NumCPU = 3
	if r.Intn(3) == 0 {
		// bias towards parking a writer mid-handler: low stickiness, uniform choice
		c.Policy = "uniform"
	}
	if r.Intn(2) == 0 {
		// C10's workspaces are tiny, so many more function entries can be scheduling points than
		// elsewhere: a handler that is not atomic (lock dropped and re-taken, a value read before
		// the lock) needs another handler to run inside a window of a few calls
		if c.Knobs == nil {
			c.Knobs = map[string]int{}
		}
		c.Knobs["fnyield"] = 20 + r.Intn(130)
	}
	sc.Sched = c
	return sc
}

// ---- race reports -----------------------------------------------------------------------------

var raceOffset int64

var raceFrameRe = regexp.MustCompile(`(?m)^  ([^\s(]+(?:\([^)]*\))?[^\s(]*)\(.*\n\s+(\S+):\d+`)

type raceReport struct {
	a, b string
	text string
	// mapConflict: both accesses are Go map operations and at least one writes — the pattern the Go
	// runtime turns into "fatal error: concurrent map read and map write" when it really overlaps
	mapConflict bool
}

var raceFirstFrameRe = regexp.MustCompile(`(?m)\A[^\n]*\n  (\S+)\(`)

func isMapAccess(stack string) bool {
	m := raceFirstFrameRe.FindStringSubmatch(stack)
	return m != nil && (strings.HasPrefix(m[1], "runtime.map") || strings.HasPrefix(m[1], "internal/runtime/maps."))
}

func isWriteAccess(stack string) bool {
	h := strings.ToLower(firstLine(stack))
	return strings.HasPrefix(h, "write at") || strings.HasPrefix(h, "previous write at")
}

// newRaceReports parses the reports the race detector appended to its log since the last call.
func newRaceReports() []raceReport {
	prefix := os.Getenv("VERIF_RACE_LOG")
	if prefix == "" {
		return nil
	}
	path := fmt.Sprintf("%s.%d", prefix, os.Getpid())
	data, err := os.ReadFile(path)
	if err != nil || int64(len(data)) <= raceOffset {
		return nil
	}
	fresh := string(data[raceOffset:])
	raceOffset = int64(len(data))
	var out []raceReport
	for _, rep := range strings.Split(fresh, "==================") {
		if !strings.Contains(rep, "WARNING: DATA RACE") {
			continue
		}
		// split into the two access stacks
		idx := regexp.MustCompile(`(?m)^(Previous )?(read|write|Read|Write) at `).FindAllStringIndex(rep, -1)
		if len(idx) < 2 {
			continue
		}
		endSecond := strings.Index(rep[idx[1][0]:], "\n\n")
		s1 := rep[idx[0][0]:idx[1][0]]
		s2 := rep[idx[1][0]:]
		if endSecond > 0 {
			s2 = rep[idx[1][0] : idx[1][0]+endSecond]
		}
		f1, file1 := innermostRepo(s1)
		f2, file2 := innermostRepo(s2)
		// An access made by the dispatcher while it encodes a handler's answer (or decodes its
		// parameters) touches memory the server handed to it: if the other side is server code the
		// server shares mutable state with an answer that is serialised after its handler returned.
		if f1 == "" && f2 != "" && dispatcherCodec(s1) {
			f1, file1 = "jrpc2 answer/params codec", "jrpc2"
		}
		if f2 == "" && f1 != "" && dispatcherCodec(s2) {
			f2, file2 = "jrpc2 answer/params codec", "jrpc2"
		}
		if f1 == "" || f2 == "" {
			continue // a side is neither server code nor the dispatcher's codec (harness, simulator)
		}
		if telemetryFile(file1) || telemetryFile(file2) {
			continue // telemetry counters are outside the property
		}
		a, b := f1, f2
		if b < a {
			a, b = b, a
		}
		out = append(out, raceReport{a, b, clip(rep, 3500), isMapAccess(s1) && isMapAccess(s2) && (isWriteAccess(s1) || isWriteAccess(s2))})
	}
	return out
}

// innermostRepo returns the innermost frame of an access stack that is not Go runtime / standard
// library code, provided it is server code; an access made by the simulator runtime, the harness
// or the dispatcher is not the server's.
func innermostRepo(stack string) (fn, file string) {
	for _, m := range raceFrameRe.FindAllStringSubmatch(stack, -1) {
		f := m[1]
		if strings.HasPrefix(f, "luahelper-lsp/") {
			return f, m[2]
		}
		if strings.HasPrefix(f, "simrt") || strings.HasPrefix(f, "harness") || strings.HasPrefix(f, "github.com/") || strings.HasPrefix(f, "golang.org/") {
			return "", ""
		}
		// runtime.*, sync.*, bytes.*, strings.*, encoding/* ...: keep looking outwards
	}
	return "", ""
}

// dispatcherCodec: the access happens inside encoding/json called from the jrpc2 dispatcher.
func dispatcherCodec(stack string) bool {
	return strings.Contains(stack, "encoding/json.") && strings.Contains(stack, "github.com/yinfei8/jrpc2") &&
		!strings.Contains(stack, "simrt.") && !strings.Contains(stack, "harness.")
}

func telemetryFile(f string) bool {
	return strings.HasSuffix(f, "get_online_req.go") || strings.HasSuffix(f, "online_report.go")
}

// ---- oracle -----------------------------------------------------------------------------------

func permutations(n int) [][]int {
	var res [][]int
	var rec func(cur []int, used []bool)
	rec = func(cur []int, used []bool) {
		if len(cur) == n {
			res = append(res, append([]int(nil), cur...))
			return
		}
		for i := 0; i < n; i++ {
			if !used[i] {
				used[i] = true
				rec(append(cur, i), used)
				used[i] = false
			}
		}
	}
	rec(nil, make([]bool, n))
	return res
}

// burstItem is one step of a sequential reference execution of the burst: a message, or a disk
// write taken apart from the message that reports it.
type burstItem struct {
	op   Op
	orig int // index into sc.Ops of the op whose answer this item produces (-1: none)
	// after lists items (indexes into the item list) that must come first
	after []int
}

// burstItems expands the burst into items with ordering constraints.  The client's disk writes
// (the write of a save, a world write) happen when the client performs them, which may be long
// before the server handles the message that reports them and even before it handles earlier
// messages; a sequential explanation may therefore place a write anywhere before its report.
// Writes keep their order among themselves (they are performed by one client, in order).
func burstItems(ops []Op, from int, saveTexts map[int]string) []burstItem {
	var items []burstItem
	lastWrite := -1
	var pendingWrites []int
	for i, o := range ops {
		switch o.Kind {
		case "save":
			text, ok := saveTexts[from+i]
			if !ok {
				items = append(items, burstItem{op: o, orig: from + i}) // skipped by the client model
				continue
			}
			w := burstItem{op: Op{Kind: "fswrite", Path: o.Path, Data: Bytes(text), NoEvt: o.NoEvt}, orig: -1}
			if lastWrite >= 0 {
				w.after = append(w.after, lastWrite)
			}
			items = append(items, w)
			lastWrite = len(items) - 1
			if !o.NoEvt {
				pendingWrites = append(pendingWrites, lastWrite)
			}
			n := o
			n.NoWrite = true
			t := text
			n.Text = &t
			items = append(items, burstItem{op: n, orig: from + i, after: []int{lastWrite}})
		case "fswrite", "fsremove":
			w := burstItem{op: o, orig: -1}
			if lastWrite >= 0 {
				w.after = append(w.after, lastWrite)
			}
			items = append(items, w)
			lastWrite = len(items) - 1
			if !o.NoEvt {
				pendingWrites = append(pendingWrites, lastWrite)
			}
		case "deliver":
			items = append(items, burstItem{op: o, orig: from + i, after: append([]int(nil), pendingWrites...)})
			pendingWrites = nil
		default:
			items = append(items, burstItem{op: o, orig: from + i})
		}
	}
	return items
}

// linearExtensions enumerates the orders of the items that respect the constraints, up to limit.
func linearExtensions(items []burstItem, limit int) (orders [][]int, complete bool) {
	n := len(items)
	used := make([]bool, n)
	cur := make([]int, 0, n)
	complete = true
	var rec func()
	rec = func() {
		if !complete {
			return
		}
		if len(cur) == n {
			if len(orders) >= limit {
				complete = false
				return
			}
			orders = append(orders, append([]int(nil), cur...))
			return
		}
		for i := 0; i < n; i++ {
			if used[i] {
				continue
			}
			ok := true
			for _, a := range items[i].after {
				if !used[a] {
					ok = false
					break
				}
			}
			if !ok {
				continue
			}
			used[i] = true
			cur = append(cur, i)
			rec()
			cur = cur[:len(cur)-1]
			used[i] = false
		}
	}
	rec()
	return
}

func checkC10(t *testing.T, sc *Scenario) *Verdict {
	v := &Verdict{OK: true}
	from, to := sc.Burst[0], sc.Burst[1]
	if from < 0 || to > len(sc.Ops) || to-from < 2 {
		v.Invalid = true
		return v
	}
	newRaceReports() // discard anything left over
	conc := Run(t, sc, sc.Sched, Hooks{})
	v.absorb(conc)
	replayForm := func() *Scenario {
		c := sc.Clone()
		c.Sched = withTape(sc.Sched, conc.Tape)
		return c
	}
	races := newRaceReports()
	if conc.Outcome == OutInvalid {
		v.Invalid = true
		return v
	}
	if len(races) > 0 {
		r := races[0]
		return v.violation("c10-data-race", "race: "+r.a+" <-> "+r.b, r.text, replayForm())
	}
	if conc.Outcome != OutOK {
		return v.violation("c10-run-"+conc.Outcome, conc.Outcome+": "+firstLine(conc.Detail), conc.Detail, replayForm())
	}
	overlap := conc.Stats.Probes["lock.contended"] > 0 || maxParked(conc) >= 2
	_ = overlap

	// sequential references: every order of the burst's messages, each run to completion, with the
	// client's disk writes placed anywhere before the message that reports them
	items := burstItems(sc.Ops[from:to], from, conc.SaveTexts)
	msgs := 0
	for _, it := range items {
		if it.orig >= 0 {
			msgs++
		}
	}
	orders, complete := linearExtensions(items, 720)
	if msgs > 5 || !complete {
		v.Invalid = true // too many orders to enumerate: no verdict rather than an incomplete reference set
		return v
	}
	seqCfg := sc.Sched
	seqCfg.Policy = "lowest"
	seqCfg.Tape = nil
	seqCfg.UseTape = true
	type ref struct {
		order   []int
		answers map[int]string // scenario op index -> answer
	}
	var refs []ref
	delta := len(items) - (to - from)
	for _, perm := range orders {
		s2 := sc.Clone()
		var burst []Op
		var origIdx []int
		for _, ii := range perm {
			o := items[ii].op
			o.Async = false
			burst = append(burst, o)
			origIdx = append(origIdx, items[ii].orig)
		}
		s2.Ops = append(append(append([]Op{}, sc.Ops[:from]...), burst...), sc.Ops[to:]...)
		res := Run(t, s2, seqCfg, Hooks{})
		v.absorb(res)
		if res.Outcome != OutOK {
			// a sequential execution that fails is a C01 matter; it cannot serve as a reference
			continue
		}
		rf := ref{order: perm, answers: map[int]string{}}
		for _, a := range res.Answers {
			idx := a.Op
			switch {
			case idx >= from && idx < from+len(burst):
				idx = origIdx[idx-from]
			case idx >= from+len(burst):
				idx -= delta
			}
			rf.answers[idx] = a.Result + "|" + a.Err
		}
		refs = append(refs, rf)
		if f := os.Getenv("VERIF_DEBUG_C10"); f != "" {
			if fh, err := os.OpenFile(f, os.O_APPEND|os.O_CREATE|os.O_WRONLY, 0644); err == nil {
				fmt.Fprintf(fh, "order %v: %v\n", perm, rf.answers)
				fh.Close()
			}
		}
	}
	newRaceReports() // sequential runs cannot race; drop duplicates of suppressed reports
	if len(refs) == 0 {
		v.Invalid = true
		return v
	}
	for _, a := range conc.Answers {
		if a.Op < 0 {
			continue
		}
		got := a.Result + "|" + a.Err
		explained := false
		for _, rf := range refs {
			if rf.answers[a.Op] == got {
				explained = true
				break
			}
		}
		if !explained {
			kind := "burst"
			if a.Op >= to {
				kind = "post-burst"
			}
			var alts []string
			seen := map[string]bool{}
			for _, rf := range refs {
				if !seen[rf.answers[a.Op]] {
					seen[rf.answers[a.Op]] = true
					alts = append(alts, clip(rf.answers[a.Op], 400))
				}
			}
			m := a.Method[strings.LastIndex(a.Method, "/")+1:]
			return v.violation("c10-not-serialisable", fmt.Sprintf("%s %s answer has no sequential explanation", kind, m),
				fmt.Sprintf("op#%d %s answered %s under the concurrent schedule; the %d sequential orders give: %s", a.Op, a.Method, clip(got, 600), len(refs), strings.Join(alts, "  ||  ")), replayForm())
		}
	}
	v.NonTrivial = overlapHappened(conc)
	var shape []string
	for _, o := range sc.Ops[from:to] {
		shape = append(shape, o.Kind+":"+o.Method)
	}
	v.Shape = strings.Join(shape, ",") + " " + conc.Stats.TraceHash
	return v
}

func firstLine(s string) string {
	if i := strings.Index(s, "\n"); i >= 0 {
		s = s[:i]
	}
	return clip(s, 120)
}

func maxParked(r *RunResult) int { return r.Probes["max-handlers-in-flight"] }

// overlapHappened: at least two handlers were in flight at the same time.
func overlapHappened(r *RunResult) bool {
	return r.Probes["max-handlers-in-flight"] >= 2 || r.Stats.Probes["lock.contended"] > 0
}
