package harness

import (
	"encoding/json"
	"fmt"
	"math/rand"
	"os"
	"regexp"
	"sort"
	"strings"
	"testing"

	"simrt/simfs"
)

// C01 — the server never crashes or hangs, whatever the workspace or the client sends.
//
// Swarm workloads: arbitrary file contents, hostile annotations and configuration, conformant
// message scripts with position sweeps and up to 4 requests in flight, under every scheduling
// policy and with every fault kind of the simulated world.  Invariants during the run: the
// process stays alive (crashes are attributed by the orchestrator), no internal panic is
// swallowed, no deadlock.  Bounded liveness once faults stop: every request is answered within
// the step budget and inside the CPU watchdog; the final drain terminates.

func init() { register(&Property{ID: "C01", Gen: genC01, Check: checkC01}) }

// c01FileContent draws one file.  emph (a per-scenario emphasis) forces a family of rare inputs for
// every file of the scenario, so that each family gets a steady share of the runs however broad
// the mix becomes: 1 = constructs cut off by the end of the file, 2 = cyclic annotation graphs.
func c01FileContent(r *rand.Rand, g *luaGen, emph int) []byte {
	k := r.Intn(16)
	switch emph {
	case 1:
		k = 14
	case 2:
		k = []int{10, 11, 15}[r.Intn(3)]
	}
	switch k {
	case 0, 1, 2, 3:
		return []byte(g.Program(2 + r.Intn(12)))
	case 4, 5:
		return []byte(tokenMutate(r, g.Program(3+r.Intn(10)), 1+r.Intn(4)))
	case 6, 7:
		c := loadCorpus()
		return byteMutate(r, c[r.Intn(len(c))], r.Intn(6))
	case 8:
		c := loadCorpus()
		return []byte(tokenMutate(r, string(c[r.Intn(len(c))]), 1+r.Intn(5)))
	case 9:
		n := r.Intn(200)
		b := make([]byte, n)
		r.Read(b)
		return b
	case 10, 11:
		return []byte(g.CyclicAnnotations() + g.Program(r.Intn(4)))
	case 12:
		return []byte(g.Nested(20 + r.Intn(180)))
	case 13:
		var sb strings.Builder
		for i := 0; i < 3+r.Intn(10); i++ {
			sb.WriteString(g.annotation() + "\n")
		}
		return []byte(sb.String())
	case 14:
		if r.Intn(2) == 0 && emph != 1 {
			return nil
		}
		// a construct cut off by the end of the file: truncate a program at an arbitrary byte, and
		// sometimes end it in the middle of a string escape / long bracket / annotation
		p := g.Program(2 + r.Intn(6))
		p = p[:r.Intn(len(p)+1)]
		return []byte(p + []string{"", "", "\"abc\\", "'x\\", "[", "[=", "[==[ab", "--[[", "--[==[", "---@", "---@type '", "---@class A :", "0x", "1e", "a.", "a:", "f(", "{", "\"\\x4", "\"\\u{12"}[r.Intn(20)])
	default:
		return []byte(tokenMutate(r, g.CyclicAnnotations(), 1+r.Intn(3)))
	}
}

var c01JSONConfigs = []string{
	`{"BaseDir":"./","ShowWarnFlag":1}`,
	`{"BaseDir":"./","ShowWarnFlag":1,"ProjectFiles":["main.lua"],"IgnoreModules":["hive"],"ReferMatchPathFlag":1}`,
	`{"BaseDir":"./","ShowWarnFlag":1,"ProjectFiles":["f0.lua","d1/f1.lua","nosuch.lua"],"IgnoreFileNameVarFlag":1,"ProtocolVars":["c2s","s2s"],"ProtocolPreIngoreFlag":1}`,
	`{"BaseDir":"./d1/","ShowWarnFlag":1,"OtherDir":"../d2","IgnoreErrorTypes":[2,4],"OpenErrorTypes":[26,27,28]}`,
	`{"BaseDir":"./","ShowWarnFlag":1,"OpenErrorTypes":[26,27,28,29]}`,
	`{"BaseDir":"./","ShowWarnFlag":1,"OpenErrorTypes":[22,23,24,25,26,27,28,29]}`,
	`{"BaseDir":"./","ShowWarnFlag":1,"OpenErrorTypes":[24,25]}`,
	`{"BaseDir":"./","ShowWarnFlag":1,"OpenErrorTypes":[22,23,24,25,26,27,28,29],"ProjectFiles":["f0.lua"]}`,
	`{"BaseDir":"./","ShowWarnFlag":0}`,
	`{"ShowWarnFlag":1,"ReferFrameFiles":[{"Name":"import","Type":0,"SuffixFlag":1},{"Name":"include","Type":1,"SuffixFlag":0}],"PathSeparator":"/"}`,
	`{"ShowWarnFlag":1,"AnntotateSets":[{"FuncName":"NewObject","ParamIndex":1,"SplitFlag":1,"PrefixStr":"U","PrefixStrList":["A","U"],"SuffixStr":"_C"}]}`,
	`{"ShowWarnFlag":1,"IgnoreFileVars":[{"File":"f0.lua","Vars":["a","b"]}],"IgnoreLocalNoUseVars":["_"],"IgnoreWildcardModules":["g*"],"IgnoreReadFiles":["x.lua"]}`,
}

// randJSONConfig draws a luahelper.json over all of its fields, each from a pool that includes the
// values nothing validates (0, negative, huge, empty, regex metacharacters, missing members), and a
// Lua file that uses what the configuration names.
func randJSONConfig(r *rand.Rand, names []string) (string, string) {
	ints := []int{-1, 0, 0, 1, 1, 2, 3, 99}
	strs := []string{"", ".", "/", "x", "U", "_C", "a(b", "[", "*", "d1/", "../", "f0.lua", "hive", "g.*"}
	pick := func() string { return strs[r.Intn(len(strs))] }
	some := func(n int, f func() interface{}) []interface{} {
		out := []interface{}{}
		for i := r.Intn(n + 1); i > 0; i-- {
			out = append(out, f())
		}
		return out
	}
	file := func() interface{} {
		if len(names) > 0 && r.Intn(3) > 0 {
			return names[r.Intn(len(names))]
		}
		return pick()
	}
	m := map[string]interface{}{}
	opt := func(k string, v func() interface{}) {
		if r.Intn(2) == 0 {
			m[k] = v()
		}
	}
	opt("BaseDir", func() interface{} { return []string{"./", "./", "", "d1/", "../", "/nonexistent"}[r.Intn(6)] })
	opt("ShowWarnFlag", func() interface{} { return ints[r.Intn(len(ints))] })
	opt("ReferMatchPathFlag", func() interface{} { return ints[r.Intn(len(ints))] })
	opt("IgnoreFileNameVarFlag", func() interface{} { return ints[r.Intn(len(ints))] })
	opt("ProtocolPreIngoreFlag", func() interface{} { return ints[r.Intn(len(ints))] })
	opt("ProjectFiles", func() interface{} { return some(3, file) })
	opt("IgnoreModules", func() interface{} { return some(2, func() interface{} { return pick() }) })
	opt("IgnoreWildcardModules", func() interface{} { return some(2, func() interface{} { return pick() }) })
	opt("IgnoreReadFiles", func() interface{} { return some(2, file) })
	opt("IgnoreErrorTypes", func() interface{} {
		return some(4, func() interface{} { return []int{-1, 0, 1, 2, 4, 6, 18, 29, 30, 99}[r.Intn(10)] })
	})
	opt("OpenErrorTypes", func() interface{} { return some(5, func() interface{} { return 20 + r.Intn(12) }) })
	opt("IgnoreFileOrFloder", func() interface{} { return some(2, file) })
	opt("IgnoreFileErr", func() interface{} { return some(2, file) })
	opt("IgnoreLocalNoUseVars", func() interface{} { return some(2, func() interface{} { return pick() }) })
	opt("PathSeparator", func() interface{} { return []string{".", "/", "", "::", "\\"}[r.Intn(5)] })
	opt("OtherDir", func() interface{} { return []string{"", "../d2", "d0", "/nonexistent", "./"}[r.Intn(5)] })
	opt("IgnoreFileVars", func() interface{} {
		return some(2, func() interface{} {
			return map[string]interface{}{"File": file(), "Vars": some(2, func() interface{} { return pick() })}
		})
	})
	opt("IgnoreFileErrTypes", func() interface{} {
		return some(2, func() interface{} {
			return map[string]interface{}{"File": file(), "Types": some(3, func() interface{} { return r.Intn(31) - 1 })}
		})
	})
	var user strings.Builder
	protos := []string{"c2s", "s2s", "", "x.y"}
	opt("ProtocolVars", func() interface{} {
		return some(2, func() interface{} {
			p := protos[r.Intn(len(protos))]
			fmt.Fprintf(&user, "%s.hello = 1\nprint(%s.hello, %s.nothere)\n", p, p, p)
			return p
		})
	})
	frames := []string{"import", "include", "load_mod", "", "a.b", "inc)lude", "f[", "x*", "a(b"}
	opt("ReferFrameFiles", func() interface{} {
		return some(3, func() interface{} {
			e := map[string]interface{}{}
			n := frames[r.Intn(len(frames))]
			if r.Intn(6) > 0 {
				e["Name"] = n
			}
			if r.Intn(3) > 0 {
				e["type"] = ints[r.Intn(len(ints))]
			}
			if r.Intn(3) > 0 {
				e["SuffixFlag"] = ints[r.Intn(len(ints))]
			}
			fmt.Fprintf(&user, "local fr_%d = %s(\"%s\")\nprint(fr_%d, fr_%d.member)\n", user.Len(), n, []string{"f0", "f0.lua", "d1.f1", "nosuch", ""}[r.Intn(5)], user.Len(), user.Len())
			return e
		})
	})
	derivers := []string{"NewObject", "GetUIObject", "Cast", ""}
	opt("AnntotateSets", func() interface{} {
		return some(3, func() interface{} {
			e := map[string]interface{}{}
			fn := derivers[r.Intn(len(derivers))]
			if r.Intn(8) > 0 {
				e["FuncName"] = fn
			}
			if r.Intn(3) > 0 { // omitted or out of range is what nothing validates
				e["ParamIndex"] = ints[r.Intn(len(ints))]
			}
			if r.Intn(2) == 0 {
				e["SplitFlag"] = ints[r.Intn(len(ints))]
			}
			if r.Intn(2) == 0 {
				e["PrefixStr"] = pick()
			}
			if r.Intn(3) == 0 {
				e["PrefixStrList"] = some(2, func() interface{} { return pick() })
			}
			if r.Intn(2) == 0 {
				e["SuffixStr"] = pick()
			}
			args := [][]string{{}, {"\"Thing\""}, {"\"/Game/Mod/BPThing.BPThing_C\""}, {"1", "\"Thing\""}, {"x", "y", "\"a.b/c\""}, {"{}"}}[r.Intn(6)]
			id := user.Len()
			fmt.Fprintf(&user, "---@class UThing\n---@field hp number\nlocal obj_%d = %s(%s)\nprint(obj_%d, obj_%d.hp)\nobj_%d:method()\n", id, fn, strings.Join(args, ", "), id, id, id)
			return e
		})
	})
	user.WriteString("hive.start()\nprint(x, g1)\n")
	b, _ := json.Marshal(m)
	return string(b), user.String()
}

func genC01(seed int64, tier string) *Scenario {
	r := rand.New(rand.NewSource(seed))
	sc := &Scenario{Prop: "C01", Seed: seed, Knobs: map[string]interface{}{}}
	sc.Sched = RandomSched(r)
	if r.Intn(3) == 0 {
		// a small live-analysis cache: the eviction path runs with a handful of edited documents
		if sc.Sched.Knobs == nil {
			sc.Sched.Knobs = map[string]int{}
		}
		sc.Sched.Knobs["lru"] = 1 + r.Intn(3)
	}
	g := newLuaGen(r)
	sc.Plugin = r.Intn(2) == 0
	emph := []int{0, 0, 0, 1, 2}[r.Intn(5)]
	sc.Knobs["emph"] = emph
	nfiles := 1 + r.Intn(9)
	var names []string
	for i := 0; i < nfiles; i++ {
		n := fmt.Sprintf("f%d.lua", i)
		if r.Intn(3) == 0 {
			n = fmt.Sprintf("d%d/f%d.lua", i%3, i)
		}
		if r.Intn(12) == 0 {
			n = fmt.Sprintf("d%d/init.lua", i%3)
		}
		names = append(names, n)
		sc.Files = append(sc.Files, File{Path: n, Data: Bytes(c01FileContent(r, g, emph))})
	}
	if r.Intn(8) == 0 {
		names = append(names, "main.lua")
		sc.Files = append(sc.Files, File{Path: "main.lua", Data: Bytes(g.Program(4))})
	}
	if r.Intn(4) == 0 {
		// an annotated API in one file (globals and a returned module table) used from several other
		// files: the cross-file passes then consult — and lazily fill — shared per-function
		// information (parameter types, defaults, return types) from several pool workers
		names = append(names, "annlib.lua")
		sc.Files = append(sc.Files, File{Path: "annlib.lua", Data: Bytes("---@class Opt\n---@field n number\n\n---@param a number\n---@param b string\n---@param c? Opt\n---@return number\nfunction api_one(a, b, c)\n  return a\nend\n\nlocal M = {}\n---@param x number\n---@param y number\n---@return string, number\nfunction M.f(x, y)\n  return \"s\", x\nend\n---@param self table\n---@param v string\nfunction M:g(v)\n  return v\nend\nreturn M\n")})
		for k := 0; k < 2+r.Intn(4); k++ {
			n := fmt.Sprintf("caller%d.lua", k)
			names = append(names, n)
			body := "local m = require(\"annlib\")\n" +
				[]string{"api_one(1, \"x\")\n", "api_one(\"wrong\", 2, {n = 1})\n", "api_one(1)\n", "api_one(1, \"x\", {}, 4)\n"}[r.Intn(4)] +
				[]string{"local s, n = m.f(1, 2)\nprint(s, n)\n", "m.f(1, \"x\")\n", "m.f()\n", "print(m.f(1, 2, 3))\n"}[r.Intn(4)] +
				[]string{"m:g(\"v\")\n", "m:g(1)\n", "m.g(m)\n", ""}[r.Intn(4)] +
				"local r = api_one(2, \"y\")\nprint(r + 1, r .. \"z\")\n"
			sc.Files = append(sc.Files, File{Path: n, Data: Bytes(body)})
		}
		sc.Knobs["annlib"] = true
	}
	popular := r.Intn(6) == 0
	if popular {
		// one global used many times in many small files, and a small ReferenceMaxNum: find-references
		// and rename reach their limit while most pool workers still hold results
		names = append(names, "pop_def.lua")
		sc.Files = append(sc.Files, File{Path: "pop_def.lua", Data: Bytes("popular = 1\nfunction popular_fn(a)\n  return a\nend\n")})
		for k := 0; k < 3+r.Intn(6); k++ {
			n := fmt.Sprintf("pop_use%d.lua", k)
			names = append(names, n)
			sc.Files = append(sc.Files, File{Path: n, Data: Bytes(strings.Repeat("print(popular)\npopular_fn(popular)\n", 1+r.Intn(4)))})
		}
		sc.Knobs["popular"] = true
	}
	// configuration file: absent / valid / structured random / hostile / garbage
	cfgKind := r.Intn(12)
	if emph == 2 && r.Intn(2) == 0 {
		// cyclic annotation graphs together with every opt-in type check switched on
		sc.Files = append(sc.Files, File{Path: "luahelper.json", Data: Bytes(`{"BaseDir":"./","ShowWarnFlag":1,"OpenErrorTypes":[22,23,24,25,26,27,28,29]}`)})
		sc.Knobs["json"] = "open-all"
		cfgKind = 99
	}
	switch cfgKind {
	case 10, 11:
		cfg, user := randJSONConfig(r, names)
		sc.Files = append(sc.Files, File{Path: "luahelper.json", Data: Bytes(cfg)})
		// a file that uses what the configuration names (annotation-deriving functions, extra
		// require-like functions, protocol prefixes, ignored modules), so requests on it reach the
		// code those settings steer
		names = append(names, "cfguser.lua")
		sc.Files = append(sc.Files, File{Path: "cfguser.lua", Data: Bytes(user)})
		sc.Knobs["json"] = "random"
	case 0, 1:
		sc.Files = append(sc.Files, File{Path: "luahelper.json", Data: Bytes(c01JSONConfigs[r.Intn(len(c01JSONConfigs))])})
		sc.Knobs["json"] = "valid"
	case 2:
		sc.Files = append(sc.Files, File{Path: "luahelper.json", Data: Bytes(c17HostileJSON[r.Intn(len(c17HostileJSON))])})
		sc.Knobs["json"] = "hostile"
	case 3:
		sc.Files = append(sc.Files, File{Path: "luahelper.json", Data: Bytes(byteMutate(r, []byte(c01JSONConfigs[r.Intn(len(c01JSONConfigs))]), 1+r.Intn(4)))})
		sc.Knobs["json"] = "mutated"
	}
	// odd disk objects
	if r.Intn(10) == 0 {
		sc.Files = append(sc.Files, File{Path: "loop", Link: Root + "/loop"})
	}
	if r.Intn(10) == 0 {
		sc.Files = append(sc.Files, File{Path: "lnk", Link: Root + "/d0"}, File{Path: "dangling.lua", Link: Root + "/nowhere.lua"})
	}
	if r.Intn(12) == 0 {
		sc.Files = append(sc.Files, File{Path: "native.so", Data: Bytes("\x7fELF")}, File{Path: "notes.txt", Data: Bytes("x")})
	}
	sort.Slice(sc.Files, func(i, j int) bool { return sc.Files[i].Path < sc.Files[j].Path })
	// init options: default / all on / random subset / telemetry on / associations
	switch r.Intn(5) {
	case 0:
		sc.InitOpts = nil
	case 1:
		o := AllOn()
		o["EnableReport"] = true
		sc.InitOpts = o
		sc.Knobs["telemetry"] = true
	case 2:
		o := map[string]interface{}{"AllEnable": true, "client": "vsc"}
		for _, k := range AllFlags {
			o[k] = r.Intn(2) == 0
		}
		sc.InitOpts = o
	case 3:
		o := AllOn()
		o["FileAssociationsConfig"] = map[string]interface{}{"*.txt": "lua", "*.cfg": "lua"}
		o["RequirePathSeparator"] = []string{".", "/", "", "xx"}[r.Intn(4)]
		o["LocalRun"] = r.Intn(2) == 0
		sc.InitOpts = o
	default:
		o := AllOn()
		o["IgnoreFileOrDir"] = []string{[]string{"d0/", "f1.lua", "d.*lua", "(["}[r.Intn(4)]}
		o["IgnoreFileOrDirError"] = []string{[]string{"d1/", "f2.lua", "f.*", "*bad"}[r.Intn(4)]}
		sc.InitOpts = o
	}
	wsFolders := map[string]bool{}
	if r.Intn(6) == 0 {
		sc.Folders = []string{Root + "/d0", Root + "/nosuch"}
		wsFolders["d0"], wsFolders["nosuch"] = true, true
	}
	sc.FirstCfg = r.Intn(2) == 0
	sc.Eager = r.Intn(4) == 0 // the client goes on right after `initialized`
	faulty := r.Intn(3) == 0
	sc.Knobs["faulty"] = faulty

	open := map[string][]byte{}
	content := map[string][]byte{}
	for _, f := range sc.Files {
		if f.Link == "" {
			content[f.Path] = f.Data
		}
	}
	pending := 0
	nops := 10 + r.Intn(50)
	if tier == "thorough" {
		nops = 10 + r.Intn(70)
	}
	reqKinds := []string{"hover", "hover", "hover", "definition", "definition", "definition", "references", "references", "rename", "completion", "completion", "completion", "signatureHelp", "signatureHelp", "highlight", "documentSymbol", "workspaceSymbol", "varColor", "documentColor", "codeLens", "documentLink", "online"}
	randPosIn := func(b []byte) Pos {
		switch r.Intn(8) {
		case 0:
			return Pos{0, 0}
		case 1: // EOF
			nl := NumLines(b)
			return Pos{nl - 1, LineLen16(b, nl-1)}
		case 2: // beyond the line end (legal: clamps)
			ln := r.Intn(NumLines(b))
			return Pos{ln, LineLen16(b, ln) + 1 + r.Intn(4)}
		case 3: // line end
			ln := r.Intn(NumLines(b))
			return Pos{ln, LineLen16(b, ln)}
		default:
			ps := identPositions(string(b))
			if len(ps) > 0 {
				p := ps[r.Intn(len(ps))]
				if r.Intn(3) == 0 {
					p.Char++ // inside / at the end of the identifier
				}
				return p
			}
			return randPos(r, b, false)
		}
	}
	for i := 0; i < nops; i++ {
		n := names[r.Intn(len(names))]
		async := pending < 3 && r.Intn(4) == 0
		switch k := r.Intn(40); {
		case k < 5:
			if _, ok := open[n]; ok {
				continue
			}
			op := Op{Kind: "open", Path: n, Async: async}
			if c, ok := content[n]; ok && r.Intn(4) > 0 {
				open[n] = c
			} else {
				t := string(c01FileContent(r, g, emph))
				if !validUTF8(t) {
					continue
				}
				op.Text = &t
				open[n] = []byte(t)
			}
			sc.Ops = append(sc.Ops, op)
		case k < 13: // incremental edit, valid for the client's copy
			cur, ok := open[n]
			if !ok {
				continue
			}
			var eds []Edit
			for b := 0; b < 1+r.Intn(2); b++ {
				p1, p2 := randPos(r, cur, true), randPos(r, cur, true)
				if lessPos(p2, p1) {
					p1, p2 = p2, p1
				}
				ins := []string{"", "(", ")", "end", " ", "\n", ".", ":", "\"", "---@", "---@class A : A\n", "local ", "=", "x", "{", "[[", "--[[", "function f(", g.expr(), g.annotation()}[r.Intn(20)]
				ed := Edit{Start: p1, End: p2, Text: ins}
				if r.Intn(3) == 0 {
					ed.End = p1
				}
				n2, err := Apply(cur, ed)
				if err != nil {
					continue
				}
				cur = n2
				eds = append(eds, ed)
			}
			if len(eds) == 0 || !validUTF8(string(cur)) {
				continue
			}
			open[n] = cur
			sc.Ops = append(sc.Ops, Op{Kind: "change", Path: n, Edits: eds, Async: async})
		case k < 15:
			if _, ok := open[n]; !ok {
				continue
			}
			t := string(c01FileContent(r, g, emph))
			if !validUTF8(t) {
				continue
			}
			open[n] = []byte(t)
			sc.Ops = append(sc.Ops, Op{Kind: "change", Path: n, Edits: []Edit{{Full: true, Text: t}}, Async: async})
		case k < 17:
			if c, ok := open[n]; ok {
				content[n] = c
				sc.Ops = append(sc.Ops, Op{Kind: "save", Path: n, Async: async})
			}
		case k < 18:
			if _, ok := open[n]; ok {
				delete(open, n)
				sc.Ops = append(sc.Ops, Op{Kind: "close", Path: n, Async: async})
			}
		case k < 21: // the world
			c := c01FileContent(r, g, emph)
			content[n] = c
			sc.Ops = append(sc.Ops, Op{Kind: "fswrite", Path: n, Data: Bytes(c), NoEvt: r.Intn(6) == 0})
		case k < 22:
			if _, ok := content[n]; ok {
				delete(content, n)
				sc.Ops = append(sc.Ops, Op{Kind: "fsremove", Path: n, NoEvt: r.Intn(6) == 0})
			}
		case k < 24:
			sc.Ops = append(sc.Ops, Op{Kind: "deliver", N: r.Intn(4), Async: async})
		case k < 25: // watcher anomalies, including spurious events
			sc.Ops = append(sc.Ops, Op{Kind: "event", Path: n, N: r.Intn(4), Async: async})
		case k < 33: // requests at swept positions
			cur, ok := open[n]
			m := reqKinds[r.Intn(len(reqKinds))]
			if !ok && r.Intn(4) > 0 {
				continue
			}
			p := Pos{r.Intn(5), r.Intn(12)}
			if ok {
				p = randPosIn(cur)
			}
			op := Op{Kind: "req", Method: m, Path: n, Pos: &p, Async: async}
			if m == "workspaceSymbol" {
				op.Arg = []string{"", "g", "f", "A", "x.y", "中", "glong", "glong_abcdefghij", "gl", LongName(300), "cfg.gl", "M:"}[r.Intn(12)]
			}
			if m == "rename" {
				op.Arg = []string{"newName", "", "end", "a b", "中文"}[r.Intn(5)]
			}
			sc.Ops = append(sc.Ops, op)
			if async {
				pending++
				if r.Intn(3) == 0 {
					sc.Ops = append(sc.Ops, Op{Kind: "cancel", N: len(sc.Ops) - 1, Async: true})
				}
			}
		case k < 34:
			sc.Ops = append(sc.Ops, Op{Kind: "step", N: r.Intn(40)})
		case k < 35:
			sc.Ops = append(sc.Ops, Op{Kind: "settle"})
			pending = 0
		case k < 36:
			var cfg string
			if r.Intn(2) == 0 {
				cfg = c17Hostile[r.Intn(len(c17Hostile))]
			} else {
				cfg = string(randC17Config(r, false).settings())
			}
			sc.Ops = append(sc.Ops, Op{Kind: "config", Params: json.RawMessage(cfg), Async: async})
		case k < 37:
			// workspace folders: a conformant client only removes folders it added and never adds one
			// twice
			ev := map[string]interface{}{"added": []interface{}{}, "removed": []interface{}{}}
			d := []string{"d0", "d1", "d2", "nosuch"}[r.Intn(4)]
			f := map[string]interface{}{"uri": "file://" + Root + "/" + d, "name": d}
			if wsFolders[d] {
				ev["removed"] = []interface{}{f}
				delete(wsFolders, d)
			} else {
				ev["added"] = []interface{}{f}
				wsFolders[d] = true
			}
			b, _ := json.Marshal(ev)
			sc.Ops = append(sc.Ops, Op{Kind: "folders", Params: b, Async: async})
		case k < 38:
			sc.Ops = append(sc.Ops, Op{Kind: "clock", N: []int{1, 500, 3100, 60000, 121000, 86400000}[r.Intn(6)]})
		case k < 39 && faulty:
			switch r.Intn(3) {
			case 0:
				kind := []string{"enoent", "eio", "torn", "eacces", "empty", "stale"}[r.Intn(6)]
				op := []string{"ReadFile", "ReadDir", "Stat", "*"}[r.Intn(4)]
				sc.Ops = append(sc.Ops, Op{Kind: "faults", Faults: []simfs.Fault{{Op: op, Suffix: []string{"", ".lua", "luahelper.json"}[r.Intn(3)], Nth: r.Intn(3), Kind: kind, Arg: r.Intn(20)}}})
			case 1:
				sc.Ops = append(sc.Ops, Op{Kind: "net", Net: []string{"deliver:{\"Num\": 5}", "deliver:garbage", "deliver:", "readerr", "failwrite:2", "deliver:{\"Num\":\"x\"}"}[r.Intn(6)]})
			default:
				sc.Ops = append(sc.Ops, Op{Kind: "clearfaults"})
			}
		default:
			sc.Ops = append(sc.Ops, Op{Kind: "deliver"})
		}
	}
	if popular {
		cfg := fmt.Sprintf(`{"luahelper":{"base":{"ReferenceMaxNum":%d,"ReferenceDefineFlag":%v},"Warn":{"AllEnable":true,"CheckSyntax":true}}}`, 1+r.Intn(6), r.Intn(2) == 0)
		pre := []Op{{Kind: "config", Params: json.RawMessage(cfg)}, {Kind: "config", Params: json.RawMessage(cfg)}}
		sc.Ops = append(pre, sc.Ops...)
		at := func(p string, ps Pos, m string) Op {
			op := Op{Kind: "req", Method: m, Path: p, Pos: &Pos{ps.Line, ps.Char}, Async: r.Intn(3) == 0}
			if m == "rename" {
				op.Arg = "renamed_global"
			}
			return op
		}
		if _, ok := open["pop_def.lua"]; !ok && content["pop_def.lua"] != nil {
			sc.Ops = append(sc.Ops, Op{Kind: "open", Path: "pop_def.lua"})
			open["pop_def.lua"] = content["pop_def.lua"]
		}
		sc.Ops = append(sc.Ops, at("pop_def.lua", Pos{0, 2}, "references"), at("pop_use0.lua", Pos{0, 8}, "references"),
			at("pop_def.lua", Pos{1, 12}, []string{"references", "rename"}[r.Intn(2)]), at("pop_def.lua", Pos{0, 2}, "rename"))
	}
	if faulty && r.Intn(3) == 0 {
		// dial failure must be armed before initialize: emulate by failing the first dials
		sc.Ops = append([]Op{{Kind: "net", Net: "faildial:1"}}, sc.Ops...)
	}
	// faults stop; after that every request must be answered within the budget
	sc.Ops = append(sc.Ops, Op{Kind: "clearfaults"}, Op{Kind: "deliver"}, Op{Kind: "settle"})
	var openNames []string
	for n := range open {
		openNames = append(openNames, n)
	}
	sort.Strings(openNames) // never let Go's map order decide anything in a generator
	if len(openNames) > 0 {
		n := openNames[r.Intn(len(openNames))]
		p := randPosIn(open[n])
		sc.Ops = append(sc.Ops, Op{Kind: "req", Method: "hover", Path: n, Pos: &p}, Op{Kind: "req", Method: "completion", Path: n, Pos: &p})
	}
	sc.Ops = append(sc.Ops, Op{Kind: "req", Method: "workspaceSymbol", Arg: "f"})
	switch r.Intn(6) {
	case 0:
		// the client goes away in the middle of a request
		sc.Ops = append(sc.Ops, Op{Kind: "req", Method: "workspaceSymbol", Arg: "", Async: true}, Op{Kind: "step", N: r.Intn(20)}, Op{Kind: "closeconn"})
	case 1:
		sc.Ops = append(sc.Ops, Op{Kind: "req", Method: "shutdown"}, Op{Kind: "notify", Method: "exit"})
	}
	return sc
}

var gidRe = regexp.MustCompile(`g\d+@`)

func validUTF8(s string) bool {
	for _, r := range s {
		if r == 0xFFFD {
			return false
		}
	}
	return true
}

// deadlockSignature: the set of sites the waiters are blocked at (how many goroutines wait at
// each depends on the pool width of the schedule, not on the defect).
func deadlockSignature(detail string) string {
	line := detail
	if i := strings.Index(line, "\n"); i >= 0 {
		line = line[:i]
	}
	line = gidRe.ReplaceAllString(line, "")
	i := strings.Index(line, ": ")
	if i < 0 {
		return clip(line, 200)
	}
	seen := map[string]bool{}
	var sites []string
	for _, s := range strings.Split(line[i+2:], ",") {
		s = strings.TrimSpace(s)
		if s != "" && !seen[s] {
			seen[s] = true
			sites = append(sites, s)
		}
	}
	sort.Strings(sites)
	return clip(line[:i+2]+strings.Join(sites, ","), 300)
}

func checkC01(t *testing.T, sc *Scenario) *Verdict {
	v := &Verdict{OK: true}
	newRaceReports() // race-detector build only: discard anything left over
	res := Run(t, sc, sc.Sched, Hooks{MaxSteps: 600000})
	v.absorb(res)
	replayForm := func() *Scenario {
		c := sc.Clone()
		c.Sched = withTape(sc.Sched, res.Tape)
		return c
	}
	// In the race-detector build (a share of C01's workers): two of the server's goroutines touching
	// one Go map without synchronisation, one of them writing.  The simulator runs one goroutine at
	// a time, so the runtime's own check cannot fire here; on real cores this is
	// "fatal error: concurrent map read and map write", which no recover() catches.
	for _, r := range newRaceReports() {
		if f := os.Getenv("VERIF_DEBUG_RACES"); f != "" {
			if fh, err := os.OpenFile(f, os.O_APPEND|os.O_CREATE|os.O_WRONLY, 0644); err == nil {
				fmt.Fprintf(fh, "%s <-> %s\n", r.a, r.b)
				fh.Close()
			}
			if _, err := os.Stat(f + ".full"); err != nil {
				os.WriteFile(f+".full", []byte(r.text), 0644)
			}
		}
		if r.mapConflict {
			return v.violation("concurrent-map-access", "map: "+r.a+" <-> "+r.b, r.text, replayForm())
		}
	}
	switch res.Outcome {
	case OutOK:
	case OutInvalid:
		v.Invalid = true
		return v
	case OutRecovered:
		// signature: panic type + innermost in-repo function
		first := res.Stats.Recovered[0]
		parts := strings.SplitN(first, "|", 3)
		sig := first
		if len(parts) == 3 {
			sig = parts[0] + " @ " + parts[1]
		}
		return v.violation("swallowed-panic", sig, res.Detail, replayForm())
	case OutDeadlock:
		return v.violation("deadlock", deadlockSignature(res.Detail), res.Detail, replayForm())
	case OutStuck:
		d := res.Detail
		if i := strings.Index(d, " unanswered"); i > 0 {
			d = d[strings.Index(d, " ")+1 : i]
		}
		return v.violation("request-never-answered", d, res.Detail, replayForm())
	case OutBudget:
		// unbounded recursion / livelock through scheduling points: identify by the sites, not by
		// the goroutine numbers
		sig := res.Detail
		if i := strings.Index(sig, " at "); i > 0 {
			sig = sig[:i]
		}
		return v.violation("step-budget-exhausted", sig, res.Detail, replayForm())
	default:
		return v.violation("c01-"+res.Outcome, firstLine(res.Detail), res.Detail, replayForm())
	}
	answered := 0
	for _, a := range res.Answers {
		if a.Done {
			answered++
		}
	}
	v.NonTrivial = answered >= 2 && res.Stats.Steps > 50
	v.Shape = fmt.Sprintf("files=%d ops=%d %x", len(sc.Files), len(sc.Ops), hashString(res.ViewString()+res.AnswerString()))
	return v
}
