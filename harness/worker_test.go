package harness

import (
	"bufio"
	"encoding/json"
	"fmt"
	"os"
	"runtime"
	"runtime/debug"
	"strings"
	"testing"
	"time"

	"simrt"
)

// Job is what verifctl hands to a worker process (env VERIF_JOB = path of a JSON file).
type Job struct {
	Prop    string  `json:"prop"`
	Mode    string  `json:"mode"` // explore | replay | gen
	Tier    string  `json:"tier"`
	Seeds   []int64 `json:"seeds,omitempty"`
	From    int64   `json:"from,omitempty"`
	To      int64   `json:"to,omitempty"`
	Replay  string  `json:"replay,omitempty"`  // scenario file (replay mode)
	Replays []string `json:"replays,omitempty"` // several scenario files (minimiser batches)
	HangSec int     `json:"hang_sec,omitempty"`
	Full    bool    `json:"full,omitempty"` // include the scenario in every result line
}

// ResultLine is one line of worker output.
type ResultLine struct {
	Seed    int64    `json:"seed"`
	File    string   `json:"file,omitempty"`
	Verdict *Verdict `json:"verdict"`
	WallMs  int64    `json:"wall_ms"`
	Sample  *Scenario `json:"sample,omitempty"`
}

var out *bufio.Writer

func emit(tag string, v interface{}) {
	b, _ := json.Marshal(v)
	fmt.Fprintf(out, "@@%s %s\n", tag, b)
	out.Flush()
}

// watchdog runs outside any bubble, on the real clock: a released goroutine that reaches no
// scheduling point for hangSec seconds is a hang candidate; the process reports it and exits 3.
func watchdog(hangSec int) {
	last := simrt.Progress.Load()
	lastChange := time.Now()
	run := simrt.RunSeq.Load()
	runStart := time.Now()
	for {
		time.Sleep(250 * time.Millisecond)
		if r := simrt.RunSeq.Load(); r != run {
			run = r
			runStart = time.Now()
		}
		// a single simulated run that keeps "making progress" but needs more than 12x the
		// no-progress budget of real time (e.g. unbounded recursion through scheduling points)
		if simrt.On && time.Since(runStart) > time.Duration(12*hangSec)*time.Second {
			site, _ := simrt.CurrentSite.Load().(string)
			buf := make([]byte, 1<<20)
			buf = buf[:runtime.Stack(buf, true)]
			emit("HANG", map[string]interface{}{"site": site, "stack": clip(hangStack(string(buf)), 6000), "kind": "run-wall-budget"})
			os.Exit(3)
		}
		cur := simrt.Progress.Load()
		if cur != last {
			last = cur
			lastChange = time.Now()
			continue
		}
		if !simrt.On {
			lastChange = time.Now()
			continue
		}
		if time.Since(lastChange) > time.Duration(hangSec)*time.Second {
			site, _ := simrt.CurrentSite.Load().(string)
			buf := make([]byte, 1<<20)
			buf = buf[:runtime.Stack(buf, true)]
			emit("HANG", map[string]interface{}{"site": site, "stack": clip(hangStack(string(buf)), 6000)})
			os.Exit(3)
		}
	}
}

// hangStack keeps the goroutines that are running server code.
func hangStack(all string) string {
	var keep []string
	for _, g := range strings.Split(all, "\n\n") {
		if strings.Contains(g, "[running]") || strings.Contains(g, "[runnable]") {
			if strings.Contains(g, "luahelper-lsp/") {
				keep = append(keep, g)
			}
		}
	}
	return strings.Join(keep, "\n\n")
}

func TestWorker(t *testing.T) {
	path := os.Getenv("VERIF_JOB")
	if path == "" {
		t.Skip("no VERIF_JOB")
	}
	data, err := os.ReadFile(path)
	if err != nil {
		t.Fatal(err)
	}
	var job Job
	if err := json.Unmarshal(data, &job); err != nil {
		t.Fatal(err)
	}
	out = bufio.NewWriter(os.Stdout)
	debug.SetMaxStack(64 << 20)
	if job.HangSec == 0 {
		job.HangSec = 20
	}
	go watchdog(job.HangSec)
	p := registry[job.Prop]
	if p == nil {
		t.Fatalf("unknown property %q", job.Prop)
	}
	switch job.Mode {
	case "explore":
		seeds := job.Seeds
		for s := job.From; s < job.To; s++ {
			seeds = append(seeds, s)
		}
		for _, s := range seeds {
			emit("BEGIN", map[string]interface{}{"seed": s})
			t0 := time.Now()
			sc := p.Gen(s, job.Tier)
			v := p.Check(t, sc)
			rl := ResultLine{Seed: s, Verdict: v, WallMs: time.Since(t0).Milliseconds()}
			if job.Full {
				rl.Sample = sc
			}
			emit("RESULT", rl)
			if !v.OK && !v.Invalid {
				// a run that ended badly may leave process-global state of the server behind (a
				// package-level mutex that stays locked, half-built tables): the rest of the batch
				// goes to a fresh process so that nothing is attributed to the wrong scenario
				emit("DONE", map[string]interface{}{"early": true})
				return
			}
		}
	case "gen":
		for _, s := range job.Seeds {
			emit("SCENARIO", p.Gen(s, job.Tier))
		}
	case "replay":
		files := job.Replays
		if job.Replay != "" {
			files = append(files, job.Replay)
		}
		for _, f := range files {
			b, err := os.ReadFile(f)
			if err != nil {
				t.Fatal(err)
			}
			var sc Scenario
			if err := json.Unmarshal(b, &sc); err != nil {
				t.Fatal(err)
			}
			emit("BEGIN", map[string]interface{}{"file": f})
			t0 := time.Now()
			v := p.Check(t, &sc)
			emit("RESULT", ResultLine{Seed: sc.Seed, File: f, Verdict: v, WallMs: time.Since(t0).Milliseconds()})
		}
	case "dump":
		// debugging aid: run the scenario of each file once under its own schedule and write the
		// folded diagnostics and every answer next to it (<file>.dump)
		for _, f := range job.Replays {
			b, err := os.ReadFile(f)
			if err != nil {
				t.Fatal(err)
			}
			var sc Scenario
			if err := json.Unmarshal(b, &sc); err != nil {
				t.Fatal(err)
			}
			res := Run(t, &sc, sc.Sched, Hooks{})
			os.WriteFile(f+".dump", []byte("outcome: "+res.Outcome+" "+res.Detail+"\n--- view\n"+res.ViewString()+"--- answers\n"+res.AnswerString()), 0644)
		}
	default:
		t.Fatalf("unknown mode %q", job.Mode)
	}
	emit("DONE", map[string]interface{}{})
}
