package harness

import (
	"encoding/json"
	"fmt"
	"math/rand"
	"os"
	"regexp"
	"sort"
	"strings"
	"testing"
)

// C09 — results are a function of workspace and configuration, not of scheduling.
//
// One (workspace, configuration, message script) is executed under K schedules that differ in
// goroutine interleaving, worker-pool width, reflect.Select poll order and map-iteration order;
// the folded diagnostics and every answer must be identical.

func init() { register(&Property{ID: "C09", Gen: genC09, Check: checkC09}) }

var identRe = regexp.MustCompile(`[A-Za-z_][A-Za-z0-9_]*`)

// identPositions returns the position of every identifier occurrence (start and one inside).
func identPositions(text string) []Pos {
	var out []Pos
	for ln, line := range strings.Split(text, "\n") {
		for _, loc := range identRe.FindAllStringIndex(line, -1) {
			out = append(out, Pos{ln, loc[0]})
		}
	}
	return out
}

// identEndPositions returns, for every identifier of at least two characters, a position after
// its first character and the position at its end (completion prefixes).
func identEndPositions(text string) []Pos {
	var out []Pos
	for ln, line := range strings.Split(text, "\n") {
		for _, loc := range identRe.FindAllStringIndex(line, -1) {
			if loc[1]-loc[0] >= 2 {
				out = append(out, Pos{ln, loc[0] + 1}, Pos{ln, loc[1]})
			}
		}
	}
	return out
}

// callArgPositions returns the position just after the opening parenthesis of the first calls in
// the text (where signature help is asked for), at most three.
func callArgPositions(text string) []Pos {
	var out []Pos
	for ln, line := range strings.Split(text, "\n") {
		if i := strings.Index(line, "("); i > 0 && len(out) < 3 {
			out = append(out, Pos{ln, i + 1})
		}
	}
	return out
}

const c09SharedText = "print(_G.whoami, whoami)\nwhich(1)\n_G.dupg = \"shared\"\nfunction _G.dupgf(a, b)\n  return b\nend\nplaing = \"shared\"\nfunction plainf(a, b)\n  return b\nend\nlocal M = {}\nreturn M\n"

// pa.lua: entry file of one twin; it also pulls in two modules that define the same _G names
const c09PaText = "local s = require(\"pshared\")\nlocal e = require(\"pextra\")\n_G.whoami = 1\nfunction which(a)\n  return a\nend\nprint(s, e, _G.dupg, dupg)\ndupgf(1)\nprint(plaing)\nplainf(1)\n"

const c09TwiceText = "---@class Twice\n---@field first number\nlocal TA = {}\n---@type Twice\nlocal mid = nil\nprint(mid.first, mid.second)\n---@class Twice\n---@field second string\nlocal TB = {}\nprint(TA, TB)\n"

func genC09(seed int64, tier string) *Scenario {
	r := rand.New(rand.NewSource(seed))
	sc := &Scenario{Prop: "C09", Seed: seed, Knobs: map[string]interface{}{}}
	nfiles := 3 + r.Intn(12)
	ndirs := 1 + r.Intn(3)
	dupGlobal := r.Intn(3) > 0
	dupFunc := r.Intn(3) > 0
	sameBase := r.Intn(2) == 0
	manyRefs := r.Intn(2) == 0
	classes := r.Intn(2) == 0
	sc.Plugin = r.Intn(3) == 0
	sc.Knobs["dupGlobal"], sc.Knobs["dupFunc"], sc.Knobs["sameBase"], sc.Knobs["nfiles"] = dupGlobal, dupFunc, sameBase, nfiles
	var use strings.Builder
	var requirers []string
	for i := 0; i < nfiles; i++ {
		dir := fmt.Sprintf("d%d", i%ndirs)
		var b strings.Builder
		fmt.Fprintf(&b, "local x%d = %d\nprint(x%d)\ng%d = %d\n", i, i, i, i, i)
		if dupFunc && i%3 == 0 {
			fmt.Fprintf(&b, "function dupfn(a%s)\n  return a\nend\n", strings.Repeat(", b", 1+i%4)[:3*(i%3)])
		}
		if dupGlobal && i%4 == 1 {
			fmt.Fprintf(&b, "dupvar = %d\n", i)
		}
		if dupGlobal && i%4 == 3 {
			fmt.Fprintf(&b, "dupvar = { f%d = %d }\n", i, i)
		}
		if manyRefs {
			fmt.Fprintf(&b, "print(shared)\nprint(shared, g%d)\n", (i+1)%nfiles)
		}
		if classes && i%2 == 0 {
			fmt.Fprintf(&b, "---@class Cls%d\n---@field fa%d number\nlocal Cls%d = {}\nfunction Cls%d:m%d() end\n", i%3, i, i%3, i%3, i)
		}
		if r.Intn(4) == 0 {
			fmt.Fprintf(&b, "print(g%d, undefinedthing%d)\n", r.Intn(nfiles), i)
		}
		sc.Files = append(sc.Files, File{Path: fmt.Sprintf("%s/f%02d.lua", dir, i), Data: Bytes(b.String())})
	}
	if sameBase {
		for d := 0; d < ndirs; d++ {
			sc.Files = append(sc.Files, File{Path: fmt.Sprintf("d%d/same.lua", d), Data: Bytes(fmt.Sprintf("samevar%d = 1\nlocal M = {v=%d}\nreturn M\n", d, d))})
		}
		use.WriteString("local s = require(\"same\")\nprint(s, s.v)\n")
		// the same module string required from files in different directories: the best match
		// depends on the requiring file
		for d := 0; d < ndirs; d++ {
			p := fmt.Sprintf("d%d/req%d.lua", d, d)
			sc.Files = append(sc.Files, File{Path: p, Data: Bytes(fmt.Sprintf("local m%d = require(\"same\")\nprint(m%d.v, samevar%d)\n", d, d, d))})
			requirers = append(requirers, p)
		}
	}
	if manyRefs {
		sc.Files = append(sc.Files, File{Path: "shared.lua", Data: Bytes("shared = 1\n")})
		use.WriteString("print(shared)\n")
	}
	if dupFunc {
		fmt.Fprintf(&use, "dupfn(1%s)\n", strings.Repeat(", 2", r.Intn(4)))
	}
	if dupGlobal {
		use.WriteString("print(dupvar)\nlocal dv = dupvar\nprint(dv)\n")
	}
	fmt.Fprintf(&use, "print(g%d, g%d, nosuchglobal)\n", r.Intn(nfiles), r.Intn(nfiles))
	if classes {
		use.WriteString("---@type Cls0\nlocal c0 = nil\nprint(c0.fa0)\n")
	}
	if r.Intn(4) == 0 {
		// a file that is listed but cannot be read (a dangling symbolic link) and is required by
		// fuzzy name from several files of the same parallel first pass
		sc.Files = append(sc.Files, File{Path: "d0/ghost.lua", Link: Root + "/nowhere/ghost.lua"})
		for i := range sc.Files {
			if sc.Files[i].Link == "" && strings.HasSuffix(sc.Files[i].Path, ".lua") && r.Intn(2) == 0 {
				sc.Files[i].Data = append(Bytes("local gh = require(\"ghost\")\nprint(gh)\n"), sc.Files[i].Data...)
			}
		}
		use.WriteString("local gh = require(\"ghost\")\nprint(gh)\n")
		sc.Knobs["ghost"] = true
	}
	hugeQuery := false
	if r.Intn(3) == 0 {
		// a table and an annotated class with more members than the hover / completion preview shows
		// (PreviewFieldsNum, 30 by default): which members make it into the preview must not
		// depend on map order
		var big, cls strings.Builder
		big.WriteString("BigTbl = {\n")
		cls.WriteString("---@class BigCls\n")
		for k := 0; k < 34+r.Intn(10); k++ {
			fmt.Fprintf(&big, "  k%02d = %d,\n", k, k)
			fmt.Fprintf(&cls, "---@field f%02d number\n", k)
		}
		big.WriteString("}\n")
		cls.WriteString("BigClsT = {}\n")
		if r.Intn(2) == 0 {
			// more symbols than workspace/symbol returns (200): the cut-off must not depend on the
			// order in which the pool delivers the files
			for t := 0; t < 3; t++ {
				fmt.Fprintf(&big, "HugeTbl%d = {\n", t)
				for k := 0; k < 80; k++ {
					fmt.Fprintf(&big, "  hk%d_%02d = %d,\n", t, k, k)
				}
				big.WriteString("}\n")
			}
			hugeQuery = true
		}
		sc.Files = append(sc.Files, File{Path: "d0/big.lua", Data: Bytes(big.String() + cls.String())})
		use.WriteString("print(BigTbl, BigTbl.k01)\n---@type BigCls\nlocal bigc = nil\nprint(bigc, bigc.f01)\n")
		sc.Knobs["big"] = true
	}
	if r.Intn(2) == 0 {
		// an annotated function called with too few arguments from many files: the cross-file workers
		// all consult (and lazily fill) the callee's shared parameter information
		sc.Files = append(sc.Files, File{Path: "d0/annfn.lua", Data: Bytes("---@param a number\n---@param b number\n---@param c number\nfunction annfn(a, b, c)\n  return a\nend\n")})
		for i := range sc.Files {
			if strings.HasSuffix(sc.Files[i].Path, ".lua") && sc.Files[i].Path != "d0/annfn.lua" && r.Intn(3) > 0 {
				sc.Files[i].Data = append(sc.Files[i].Data, []byte("annfn(1)\nannfn(1, 2)\n")...)
			}
		}
		use.WriteString("annfn(1)\n")
		sc.Knobs["annfn"] = true
	}
	if r.Intn(3) == 0 {
		// a global table defined in one file and extended from others; two of them add a member of
		// the same name: which one the table ends up with must not depend on map or arrival order
		sc.Files = append(sc.Files, File{Path: "d0/tbl.lua", Data: Bytes("SharedTbl = {}\nSharedTbl.own = 1\n")})
		for k := 0; k < 2+r.Intn(3); k++ {
			sc.Files = append(sc.Files, File{Path: fmt.Sprintf("d%d/ext%d.lua", k%ndirs, k), Data: Bytes(fmt.Sprintf("SharedTbl.v%s = %d\nfunction SharedTbl:same(a%s)\n  return a\nend\nfunction SharedTbl:only%d() end\nSharedTbl.field = %d\n", strings.Repeat("w", k), k, strings.Repeat(", b", k), k, k))})
		}
		use.WriteString("print(SharedTbl.own, SharedTbl.field)\nSharedTbl:same(1)\nSharedTbl:only0()\n")
		sc.Knobs["sharedTbl"] = true
	}
	if r.Intn(3) == 0 {
		// a native module required from several files of the same first-pass batch: the lookups of
		// "native.so" go through the shared file-exists cache from several workers at once
		sc.Files = append(sc.Files, File{Path: "native.so", Data: Bytes("\x7fELF")}, File{Path: "d0/deep/other.so", Data: Bytes("\x7fELF")})
		for i := range sc.Files {
			if strings.HasSuffix(sc.Files[i].Path, ".lua") && r.Intn(2) == 0 {
				sc.Files[i].Data = append(Bytes("local nat = require(\"native\")\nlocal oth = require(\"deep.other\")\nprint(nat, oth)\n"), sc.Files[i].Data...)
			}
		}
		use.WriteString("local nat = require(\"native\")\nprint(nat)\n")
		sc.Knobs["native"] = true
	}
	if r.Intn(2) == 0 {
		// multi-line table constructors with several members on one line (document symbols compute
		// the table's extent from its members), global and local
		use.WriteString("CfgTbl = {\n  first = 1,\n  width = 10, height = 20, depth = 30,\n}\nlocal LocTbl = {\n  p = 1, q = 2,\n  r = 3, s = 4,\n}\nprint(CfgTbl.width, LocTbl.q)\n")
	}
	twice := r.Intn(2) == 0
	if twice {
		// one file defines the same annotation type twice (legal: only a hint) and uses it between
		// the two definitions; another file resolves the type through the project-wide table
		sc.Files = append(sc.Files, File{Path: "d0/twice.lua", Data: Bytes(c09TwiceText)})
		use.WriteString("---@type Twice\nlocal tw = nil\nprint(tw.first, tw.second)\n")
		sc.Knobs["twice"] = true
	}
	projectMode := r.Intn(4) == 0
	twins := false
	if projectMode {
		// luahelper.json project mode: the entry file pulls other files in through require, so the
		// second analysis pass (its own worker pool) and the third pass both run
		for k := 0; k < 3 && k < nfiles; k++ {
			fmt.Fprintf(&use, "local r%d = require(\"f%02d\")\nprint(r%d)\n", k, r.Intn(nfiles), k)
		}
		entries := []string{"use.lua"}
		if r.Intn(2) == 0 {
			entries = append(entries, sc.Files[r.Intn(len(sc.Files))].Path)
		}
		if r.Intn(2) == 0 {
			// twin projects: two entry files of equal size that share one module and define the same
			// names differently; questions asked inside the shared module must always be answered
			// from the same project
			sc.Files = append(sc.Files,
				File{Path: "pa.lua", Data: Bytes(c09PaText)},
				File{Path: "pextra.lua", Data: Bytes("_G.dupg = \"extra\"\nfunction _G.dupgf(a)\n  return a\nend\nplaing = \"extra\"\nfunction plainf(a)\n  return a\nend\nreturn {}\n")},
				File{Path: "pb.lua", Data: Bytes("local s = require(\"pshared\")\n_G.whoami = \"b\"\nfunction which(a, b)\n  return b\nend\nprint(s)\n")},
				File{Path: "pshared.lua", Data: Bytes(c09SharedText)})
			entries = append(entries, "pa.lua", "pb.lua")
			twins = true
			sc.Knobs["twins"] = true
		}
		if r.Intn(2) == 0 {
			// an enum section (only checked when a luahelper.json exists) with equal values defined on
			// one line: which member the duplicate-value warning sits on and which one it names
			sc.Files = append(sc.Files, File{Path: "enums.lua", Data: Bytes("---@enum start\nRED, GREEN = 1, 1\nlocal up, down = \"v\", \"v\"\nE9A = 7; E9B = 7\nBLUE = 2\n---@enum end\n")})
			sc.Knobs["enums"] = true
		}
		cfg := map[string]interface{}{"BaseDir": "./", "ShowWarnFlag": 1, "ProjectFiles": entries}
		if r.Intn(2) == 0 {
			cfg["ReferMatchPathFlag"] = 1 // full-path matching: every require goes through the file-exists cache
		}
		b, _ := json.Marshal(cfg)
		sc.Files = append(sc.Files, File{Path: "luahelper.json", Data: Bytes(b)})
		sc.Knobs["project"] = true
	}
	multiRoot := !projectMode && r.Intn(4) == 0
	if multiRoot {
		// a second workspace root holding files with the same relative paths as files of the first
		// root and defining the same globals: every per-file order the server uses must stay total
		// across roots
		n := 0
		for _, f := range sc.Files {
			if strings.HasSuffix(f.Path, ".lua") && r.Intn(2) == 0 && n < 4 {
				body := string(f.Data) + fmt.Sprintf("root2marker%d = %d\n", n, n)
				sc.Files = append(sc.Files, File{Path: "/ws2/" + f.Path, Data: Bytes(body)})
				n++
			}
		}
		sc.Files = append(sc.Files, File{Path: "/ws2/only2.lua", Data: Bytes("only2 = 1\ndupvar = 'root2'\nfunction dupfn(z) return z end\n")})
		use.WriteString("print(only2, root2marker0)\n")
		sc.Knobs["multiRoot"] = true
		if r.Intn(2) == 0 {
			sc.Folders = []string{Root, "/ws2"}
		} else {
			ev := map[string]interface{}{"added": []interface{}{map[string]interface{}{"uri": "file:///ws2", "name": "ws2"}}, "removed": []interface{}{}}
			b, _ := json.Marshal(ev)
			sc.Ops = append(sc.Ops, Op{Kind: "folders", Params: b})
		}
	}
	useText := use.String()
	sc.Files = append(sc.Files, File{Path: "use.lua", Data: Bytes(useText)})
	sort.Slice(sc.Files, func(i, j int) bool { return sc.Files[i].Path < sc.Files[j].Path })

	if manyRefs && r.Intn(2) == 0 {
		// lower the reference cap so that the truncation path runs
		cfg := map[string]interface{}{"luahelper": map[string]interface{}{"base": map[string]interface{}{"ReferenceMaxNum": 3 + r.Intn(5), "ReferenceDefineFlag": true}}}
		b, _ := json.Marshal(cfg)
		sc.Ops = append(sc.Ops, Op{Kind: "config", Params: b})
		sc.Knobs["refcap"] = true
	}
	if r.Intn(2) == 0 && nfiles >= 2 {
		// a file-event phase before the queries: file U goes through one event (its content is then
		// remembered), later one watcher batch reports U again unchanged together with a real change
		// of V; whether anything is re-analysed must not depend on which worker finishes last
		u, vv := sc.Files[r.Intn(len(sc.Files))], sc.Files[r.Intn(len(sc.Files))]
		if u.Path != vv.Path && u.Path != "use.lua" && vv.Path != "use.lua" {
			sc.Ops = append(sc.Ops, Op{Kind: "fswrite", Path: u.Path, Data: append(append(Bytes{}, u.Data...), []byte("-- touched\n")...)}, Op{Kind: "deliver"})
			nv := append(Bytes("gmoved_marker = 1\nprint(nosuch_after_event)\n"), vv.Data...)
			sc.Ops = append(sc.Ops, Op{Kind: "fswrite", Path: vv.Path, Data: nv}, Op{Kind: "touchq", Path: u.Path})
			if r.Intn(2) == 0 {
				sc.Ops = append(sc.Ops, Op{Kind: "touchq", Path: "use.lua"})
			}
			sc.Ops = append(sc.Ops, Op{Kind: "deliver"})
			sc.Knobs["events"] = true
			other0 := vv.Path
			sc.Ops = append(sc.Ops, Op{Kind: "req", Method: "workspaceSymbol", Arg: "gmoved"}, Op{Kind: "req", Method: "documentSymbol", Path: other0})
		}
	}
	sc.Ops = append(sc.Ops, Op{Kind: "open", Path: "use.lua"})
	pos := identPositions(useText)
	r.Shuffle(len(pos), func(i, j int) { pos[i], pos[j] = pos[j], pos[i] })
	if len(pos) > 10 {
		pos = pos[:10]
	}
	for _, p := range pos {
		p := p
		for _, m := range []string{"definition", "hover", "references"} {
			if r.Intn(3) > 0 {
				sc.Ops = append(sc.Ops, Op{Kind: "req", Method: m, Path: "use.lua", Pos: &p})
			}
		}
		// the other position-based features share the reference pool (rename, highlight) or the
		// global tables (signature help)
		for _, m := range []string{"rename", "highlight", "signatureHelp"} {
			if r.Intn(4) == 0 {
				sc.Ops = append(sc.Ops, Op{Kind: "req", Method: m, Path: "use.lua", Pos: &p})
			}
		}
	}
	for _, p := range callArgPositions(useText) {
		p := p
		sc.Ops = append(sc.Ops, Op{Kind: "req", Method: "signatureHelp", Path: "use.lua", Pos: &p})
	}
	ends := identEndPositions(useText)
	r.Shuffle(len(ends), func(i, j int) { ends[i], ends[j] = ends[j], ends[i] })
	for i := 0; i < 3 && i < len(ends); i++ {
		p := ends[i]
		sc.Ops = append(sc.Ops, Op{Kind: "req", Method: "completion", Path: "use.lua", Pos: &p})
	}
	sc.Ops = append(sc.Ops, Op{Kind: "req", Method: "codeLens", Path: "use.lua"}, Op{Kind: "req", Method: "documentLink", Path: "use.lua"})
	for _, p := range requirers {
		sc.Ops = append(sc.Ops, Op{Kind: "open", Path: p},
			Op{Kind: "req", Method: "definition", Path: p, Pos: &Pos{0, 22}},
			Op{Kind: "req", Method: "hover", Path: p, Pos: &Pos{1, 7}},
			Op{Kind: "req", Method: "definition", Path: p, Pos: &Pos{1, 9}})
	}
	// completion at the end of an identifier prefix
	sc.Ops = append(sc.Ops, Op{Kind: "req", Method: "completion", Path: "use.lua", Pos: &Pos{0, 2}})
	sc.Ops = append(sc.Ops, Op{Kind: "req", Method: "documentSymbol", Path: "use.lua"})
	sc.Ops = append(sc.Ops, Op{Kind: "req", Method: "workspaceSymbol", Arg: []string{"dup", "g1", "same", "Cls", "shared", "", "k", "f"}[r.Intn(8)]})
	if shared, _ := sc.Knobs["sharedTbl"].(bool); shared {
		// the members other files added to the table: several of them start at the same position
		// (of their own files) and differ in length only
		sc.Ops = append(sc.Ops, Op{Kind: "req", Method: "workspaceSymbol", Arg: []string{"", "SharedTbl", "SharedTbl.v"}[r.Intn(3)]})
	}
	if hugeQuery {
		sc.Ops = append(sc.Ops, Op{Kind: "req", Method: "workspaceSymbol", Arg: ""}, Op{Kind: "req", Method: "workspaceSymbol", Arg: "hk"})
	}
	other := sc.Files[r.Intn(len(sc.Files))].Path
	sc.Ops = append(sc.Ops, Op{Kind: "req", Method: "documentSymbol", Path: other})

	// a burst of read-only requests in flight together: in which order the handlers get the request
	// mutex is the scheduler's choice, and no answer may depend on it (a query that rearranges
	// shared state for the next one would show here)
	type target struct {
		path string
		pos  Pos
	}
	var targets []target
	for _, p := range identPositions(useText) {
		targets = append(targets, target{"use.lua", p})
	}
	if twins {
		sc.Ops = append(sc.Ops, Op{Kind: "open", Path: "pa.lua"})
		for _, p := range identPositions(c09PaText) {
			p := p
			if p.Line >= 6 {
				for _, m := range []string{"definition", "hover"} {
					sc.Ops = append(sc.Ops, Op{Kind: "req", Method: m, Path: "pa.lua", Pos: &p})
				}
			}
		}
		sc.Ops = append(sc.Ops, Op{Kind: "open", Path: "pshared.lua"})
		for _, p := range identPositions(c09SharedText) {
			p := p
			targets = append(targets, target{"pshared.lua", p})
			for _, m := range []string{"definition", "hover"} {
				sc.Ops = append(sc.Ops, Op{Kind: "req", Method: m, Path: "pshared.lua", Pos: &p})
			}
		}
		sc.Ops = append(sc.Ops, Op{Kind: "req", Method: "completion", Path: "pshared.lua", Pos: &Pos{0, 8}}, Op{Kind: "req", Method: "signatureHelp", Path: "pshared.lua", Pos: &Pos{1, 6}})
	}
	if twice {
		sc.Ops = append(sc.Ops, Op{Kind: "open", Path: "d0/twice.lua"})
		for _, p := range identPositions(c09TwiceText) {
			targets = append(targets, target{"d0/twice.lua", p})
		}
	}
	if len(targets) > 0 {
		nb := 3 + r.Intn(5)
		for i := 0; i < nb; i++ {
			tg := targets[r.Intn(len(targets))]
			pos := tg.pos
			m := []string{"hover", "hover", "definition", "references", "highlight", "signatureHelp", "completion"}[r.Intn(7)]
			sc.Ops = append(sc.Ops, Op{Kind: "req", Method: m, Path: tg.path, Pos: &pos, Async: true})
		}
		sc.Ops = append(sc.Ops, Op{Kind: "settle"})
		// and the same questions once more, one at a time
		for i := 0; i < 3; i++ {
			tg := targets[r.Intn(len(targets))]
			pos := tg.pos
			sc.Ops = append(sc.Ops, Op{Kind: "req", Method: "hover", Path: tg.path, Pos: &pos})
		}
	}

	k := 8
	if tier == "thorough" {
		k = 12
	}
	sc.Scheds = append(sc.Scheds, Canonical())
	for i := 1; i < k; i++ {
		sc.Scheds = append(sc.Scheds, RandomSched(r))
	}
	return sc
}

var warnTypeRe = regexp.MustCompile(`\[Warn type:(\d+)\]`)

// diffViews describes how two diagnostic views differ: the set of warning types involved.
func diffViews(a, b map[string][]string) (types []string, detail string) {
	seen := map[string]bool{}
	uris := map[string]bool{}
	for u := range a {
		uris[u] = true
	}
	for u := range b {
		uris[u] = true
	}
	var us []string
	for u := range uris {
		us = append(us, u)
	}
	sort.Strings(us)
	for _, u := range us {
		ma, mb := map[string]int{}, map[string]int{}
		for _, d := range a[u] {
			ma[d]++
		}
		for _, d := range b[u] {
			mb[d]++
		}
		for d, n := range ma {
			if mb[d] != n {
				if m := warnTypeRe.FindStringSubmatch(d); m != nil {
					seen[m[1]] = true
				}
				if detail == "" {
					detail = fmt.Sprintf("%s: only/more in A: %s", u, d)
				}
			}
		}
		for d, n := range mb {
			if ma[d] != n {
				if m := warnTypeRe.FindStringSubmatch(d); m != nil {
					seen[m[1]] = true
				}
				if detail == "" {
					detail = fmt.Sprintf("%s: only/more in B: %s", u, d)
				}
			}
		}
	}
	for t := range seen {
		types = append(types, t)
	}
	sort.Slice(types, func(i, j int) bool {
		return len(types[i]) < len(types[j]) || (len(types[i]) == len(types[j]) && types[i] < types[j])
	})
	return
}

// diffAnswers returns the request kinds whose answers differ.
func diffAnswers(a, b []*Answer) (kinds []string, detail string) {
	seen := map[string]bool{}
	n := len(a)
	if len(b) != n {
		return []string{"answer-count"}, fmt.Sprintf("%d vs %d answers", len(a), len(b))
	}
	for i := 0; i < n; i++ {
		if a[i].Result != b[i].Result || a[i].Err != b[i].Err {
			m := a[i].Method
			m = m[strings.LastIndex(m, "/")+1:]
			if !seen[m] {
				kinds = append(kinds, m)
			}
			seen[m] = true
			if detail == "" {
				detail = fmt.Sprintf("op#%d %s: %s", a[i].Op, a[i].Method, explainDiff(a[i].Result+a[i].Err, b[i].Result+b[i].Err))
			}
		}
	}
	return
}

func clip(s string, n int) string {
	if len(s) > n {
		return s[:n] + "…"
	}
	return s
}

// debugRaces appends the race reports of the runs so far to the file named by VERIF_DEBUG_RACES
// (diagnostic aid used with VERIF_FORCE_RACE=1 to survey unsynchronised state in the worker pools).
func debugRaces() {
	f := os.Getenv("VERIF_DEBUG_RACES")
	if f == "" {
		return
	}
	for _, r := range newRaceReports() {
		if fh, err := os.OpenFile(f, os.O_APPEND|os.O_CREATE|os.O_WRONLY, 0644); err == nil {
			fmt.Fprintf(fh, "%s <-> %s\n", r.a, r.b)
			fh.Close()
		}
	}
}

func checkC09(t *testing.T, sc *Scenario) *Verdict {
	defer debugRaces()
	v := &Verdict{OK: true}
	if len(sc.Scheds) < 2 {
		v.Invalid = true
		return v
	}
	var first *RunResult
	views := map[string]bool{}
	for i, cfg := range sc.Scheds {
		res := Run(t, sc, cfg, Hooks{})
		v.absorb(res)
		if res.Outcome != OutOK {
			// a run that does not complete is decided under C01; here it only makes the comparison
			// impossible.  It is still a schedule-dependent result if the canonical run completed.
			c := sc.Clone()
			c.Scheds = []simrtConfig{withTape(cfg, res.Tape)}
			return v.violation("c09-run-"+res.Outcome, "run-"+res.Outcome, fmt.Sprintf("schedule %d (%s): %s: %s", i, schedString(cfg), res.Outcome, res.Detail), c)
		}
		views[res.ViewString()+"\x00"+res.AnswerString()] = true
		if i == 0 {
			first = res
			continue
		}
		types, d1 := diffViews(first.View, res.View)
		kinds, d2 := diffAnswers(first.Answers, res.Answers)
		if len(types) > 0 || len(kinds) > 0 {
			// signature = the first thing that differs (lowest diagnostic type, else first request
			// kind) + the workspace features that are preconditions of known causes
			sig := ""
			if len(types) > 0 {
				sig = "diag-type:" + types[0]
			} else {
				sig = "answer:" + kinds[0]
			}
			if hasDupGlobals(sc) {
				sig += " +dup-global"
			}
			if hasDupBase(sc) {
				sig += " +dup-basename"
			}
			c := sc.Clone()
			c.Scheds = []simrtConfig{withTape(sc.Scheds[0], first.Tape), withTape(cfg, res.Tape)}
			return v.violation("c09-schedule-dependent", sig, fmt.Sprintf("schedule 0 (%s) vs %d (%s): %s %s", schedString(sc.Scheds[0]), i, schedString(cfg), d1, d2), c)
		}
	}
	v.NonTrivial = len(v.Traces) > 1 && distinct(v.Traces) > 1 && (first.Publishes > 0 || len(first.Answers) > 0)
	v.Shape = fmt.Sprintf("files=%d ops=%d view=%x", len(sc.Files), len(sc.Ops), hashString(first.ViewString()+first.AnswerString()))
	return v
}

// hasDupGlobals reports whether two files of the workspace assign the same global name at top
// level or define a same-named global function (the precondition of the known C09 finding).
var globalAssignRe = regexp.MustCompile(`(?m)^(?:function\s+([A-Za-z_][A-Za-z0-9_]*)\s*\(|([A-Za-z_][A-Za-z0-9_]*)\s*=[^=])`)

func hasDupGlobals(sc *Scenario) bool {
	where := map[string]string{}
	for _, f := range sc.Files {
		for _, m := range globalAssignRe.FindAllStringSubmatch(string(f.Data), -1) {
			name := m[1]
			if name == "" {
				name = m[2]
			}
			if w, ok := where[name]; ok && w != f.Path {
				return true
			}
			where[name] = f.Path
		}
	}
	return false
}

// hasDupBase reports whether two files share a base name (equal-score module candidates).
func hasDupBase(sc *Scenario) bool {
	seen := map[string]bool{}
	for _, f := range sc.Files {
		b := f.Path[strings.LastIndex(f.Path, "/")+1:]
		if seen[b] {
			return true
		}
		seen[b] = true
	}
	return false
}

func distinct(xs []string) int {
	m := map[string]bool{}
	for _, x := range xs {
		m[x] = true
	}
	return len(m)
}

// explainDiff renders the difference of two normalised answers: for JSON arrays the elements
// present on one side only, otherwise both values clipped.
func explainDiff(a, b string) string {
	var la, lb []json.RawMessage
	if json.Unmarshal([]byte(a), &la) == nil && json.Unmarshal([]byte(b), &lb) == nil && (len(la) > 0 || len(lb) > 0) {
		ma, mb := map[string]int{}, map[string]int{}
		for _, x := range la {
			ma[string(x)]++
		}
		for _, x := range lb {
			mb[string(x)]++
		}
		var onlyA, onlyB []string
		for k, n := range ma {
			if mb[k] < n {
				onlyA = append(onlyA, clip(k, 260))
			}
		}
		for k, n := range mb {
			if ma[k] < n {
				onlyB = append(onlyB, clip(k, 260))
			}
		}
		sort.Strings(onlyA)
		sort.Strings(onlyB)
		if len(onlyA) > 3 {
			onlyA = append(onlyA[:3], fmt.Sprintf("(+%d more)", len(onlyA)-3))
		}
		if len(onlyB) > 3 {
			onlyB = append(onlyB[:3], fmt.Sprintf("(+%d more)", len(onlyB)-3))
		}
		return fmt.Sprintf("|A|=%d |B|=%d only in A: %v only in B: %v", len(la), len(lb), onlyA, onlyB)
	}
	return fmt.Sprintf("A=%s B=%s", clip(a, 300), clip(b, 300))
}
