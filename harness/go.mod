module harness

go 1.26

require (
	github.com/yinfei8/jrpc2 v0.13.1
	luahelper-lsp v0.0.0
	simrt v0.0.0
)

require (
	golang.org/x/sync v0.0.0-20201207232520-09787c993a3a // indirect
	golang.org/x/text v0.3.5 // indirect
)

replace simrt => /verif/simrt

replace luahelper-lsp => /nonexistent/set-by-verifctl
