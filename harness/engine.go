package harness

import (
	"encoding/json"
	"fmt"
	"io"
	"net/url"
	"os"
	"regexp"
	"runtime"
	"sort"
	"strconv"
	"strings"
	"sync"
	"testing"
	"testing/synctest"
	"time"

	"luahelper-lsp/langserver"
	"luahelper-lsp/langserver/check/common"
	"luahelper-lsp/langserver/log"
	"simrt"
	"simrt/simfs"
)

// ---- transport --------------------------------------------------------------------------------

// simChan implements jrpc2/channel.Channel in memory: a reliable, ordered message pipe (what a
// stdio transport is).  The client side is the engine.
type simChan struct {
	in     chan []byte
	closed chan struct{}
	mu     sync.Mutex
	out    [][]byte
	once   sync.Once
}

func newSimChan() *simChan {
	return &simChan{in: make(chan []byte), closed: make(chan struct{})}
}

func (c *simChan) Send(b []byte) error {
	select {
	case <-c.closed:
		return io.ErrClosedPipe
	default:
	}
	// the lock is hidden from the race detector: the client draining its pipe must not make
	// everything a handler did before writing its answer happen-before whatever the client sends
	// next (an in-flight client does not wait for answers)
	cp := append([]byte(nil), b...)
	simrt.RaceOff()
	c.mu.Lock()
	c.out = append(c.out, cp)
	c.mu.Unlock()
	simrt.RaceOn()
	return nil
}

func (c *simChan) Recv() ([]byte, error) {
	select {
	case b := <-c.in:
		return b, nil
	case <-c.closed:
		return nil, io.EOF
	}
}

func (c *simChan) Close() error {
	c.once.Do(func() { close(c.closed) })
	return nil
}

func (c *simChan) take() [][]byte {
	simrt.RaceOff()
	c.mu.Lock()
	o := c.out
	c.out = nil
	c.mu.Unlock()
	simrt.RaceOn()
	return o
}

// ---- run result -------------------------------------------------------------------------------

// Outcome classes of a single run (before any property-specific oracle).
const (
	OutOK        = "ok"
	OutDeadlock  = "deadlock"    // quiescent, lock waiters, nothing runnable
	OutStuck     = "stuck"       // quiescent, a request unanswered, nothing can make progress
	OutBudget    = "step-budget" // scheduler step budget exhausted
	OutInvalid   = "invalid"     // the scenario is not a conformant message sequence (generator/minimiser artefact)
	OutRecovered = "swallowed-panic"
	OutBadReply  = "error-reply"
	OutLockLeak  = "lock-leak" // quiescent, every request answered, yet a mutex is still locked
)

// Answer is the reply to one request op.
type Answer struct {
	Op     int    `json:"op"`
	Method string `json:"method"`
	Result string `json:"result"`        // normalised JSON of the result
	Raw    string `json:"raw,omitempty"` // raw result (kept only on demand)
	Err    string `json:"err,omitempty"` // JSON-RPC error, if any
	Done   bool   `json:"done"`
	Steps  int    `json:"steps,omitempty"` // scheduler steps between send and reply
}

// RunResult is everything observable about one run.
type RunResult struct {
	Outcome        string              `json:"outcome"`
	Detail         string              `json:"detail,omitempty"`
	Answers        []*Answer           `json:"answers"`
	View           map[string][]string `json:"view"` // uri -> sorted normalised diagnostics (last publish wins)
	Publishes      int                 `json:"publishes"`
	WindowMessages int                 `json:"window_messages,omitempty"` // window/showMessage, logMessage seen
	Stats          simrt.Stats         `json:"stats"`
	FsFired        map[string]int      `json:"fs_fired,omitempty"`
	FsCalls        map[string]int      `json:"fs_calls,omitempty"`
	Net            map[string]int      `json:"net,omitempty"`
	Tape           []int               `json:"tape,omitempty"`
	SimMillis      int64               `json:"sim_ms"`
	Skipped        []int               `json:"skipped,omitempty"` // ops the client model could not perform
	SaveTexts      map[int]string      `json:"-"`                 // op index of a save -> the text it wrote and announced
	Probes         map[string]int      `json:"probes,omitempty"`
	Log            []string            `json:"log,omitempty"`
}

// ViewString renders the folded diagnostics view.
func (r *RunResult) ViewString() string {
	var uris []string
	for u, d := range r.View {
		if len(d) > 0 {
			uris = append(uris, u)
		}
	}
	sort.Strings(uris)
	var sb strings.Builder
	for _, u := range uris {
		sb.WriteString(u + "\n")
		for _, d := range r.View[u] {
			sb.WriteString("   " + d + "\n")
		}
	}
	return sb.String()
}

// AnswerString renders all answers (op order).
func (r *RunResult) AnswerString() string {
	var sb strings.Builder
	for _, a := range r.Answers {
		fmt.Fprintf(&sb, "#%d %s => %s %s\n", a.Op, a.Method, a.Result, a.Err)
	}
	return sb.String()
}

// ---- engine -----------------------------------------------------------------------------------

// Hooks let a property oracle observe the run at quiescent points.
type Hooks struct {
	// AfterOp runs after op i has been executed (and settled unless async).  Returning a non-empty
	// string aborts the run with that detail as a property-specific failure.
	AfterOp func(e *Engine, i int, op *Op) string
	// KeepRaw keeps raw results in answers.
	KeepRaw bool
	// MaxSteps overrides the default scheduler step budget.
	MaxSteps int
}

type pendingEvt struct {
	path string
	typ  int
}

// Engine executes one scenario inside a bubble.
type Engine struct {
	sc     *Scenario
	ch     *simChan
	res    *RunResult
	hooks  Hooks
	nextID int
	byID   map[int]*Answer
	sentAt map[int]int
	Open   map[string][]byte // client model: path (relative) -> buffer text
	Saved  map[string]bool   // buffer equals disk
	// External marks open documents whose disk file was changed by the world (not by an edit of
	// the buffer) so that buffer and disk diverged without any "unsaved edit"; cleared by save/close.
	External map[string]bool
	// Reverted marks open documents whose buffer was brought back to the disk text by a didChange
	// (undo) rather than by a save.
	Reverted map[string]bool
	// ClientSaved: per open document, the text the editor last opened or saved (what the editor
	// itself regards as the saved state, whatever the world did to the disk since)
	ClientSaved  map[string]string
	folders      []string       // current workspace folders once a folders op has been applied
	completions  map[int]string // op index of an answered completion request -> raw result
	version      map[string]int
	events       []pendingEvt
	budget       int
	failed       bool
	cycleSamples [][]string
	initRefused  bool
	connClosed   bool
	start        time.Time
	curOp        int
}

// URI returns the document URI of a workspace-relative path.
// PluginDir is where the simulated client is installed; its bundled Lua files (API stubs the
// real extension ships) live under server/meta.
const PluginDir = "/plug"

var pluginFiles = map[string]string{
	"std.lua":      "---@class stdmeta\n---@field version string\nstdmeta = {}\nfunction stdmeta.now() end\nmeta_global = 1\n",
	"more/ext.lua": "function meta_helper(a, b)\n  return a\nend\n",
}

func URI(rel string) string { return "file://" + encodePath(Abs(rel)) }

// spellURI spells the document URI of a message the way op.Spell says. All spellings name the same
// document: the server's URI conversion decodes percent-escapes and turns backslashes into slashes.
func spellURI(op *Op) string {
	abs := Abs(op.Path)
	below := strings.TrimPrefix(abs, Root)
	if op.Spell == 0 || below == abs {
		if op.Spell == 1 && !strings.ContainsAny(abs, "%+") {
			return "file://" + abs
		}
		return URI(op.Path)
	}
	switch op.Spell {
	case 1:
		if strings.ContainsAny(abs, "%+") {
			return URI(op.Path)
		}
		return "file://" + abs
	case 2:
		return "file://" + encodePath(Root) + strings.ReplaceAll(encodePath(below), "/", "%5C")
	case 3:
		if strings.ContainsAny(abs, "%+") {
			return URI(op.Path)
		}
		return "file://" + Root + strings.ReplaceAll(below, "/", "\\")
	}
	return URI(op.Path)
}

// ViewURI is the key under which the diagnostics of a file are kept in RunResult.View: the URI as
// the server writes it (it does not percent-encode), decoded if it was encoded.
func ViewURI(rel string) string { return "file://" + Abs(rel) }

// encodePath percent-encodes a path the way VS Code's URI.toString does: everything except
// unreserved characters and the separators.
func encodePath(p string) string {
	var sb strings.Builder
	for i := 0; i < len(p); i++ {
		c := p[i]
		switch {
		case c >= 'a' && c <= 'z', c >= 'A' && c <= 'Z', c >= '0' && c <= '9', c == '-', c == '.', c == '_', c == '~', c == '/':
			sb.WriteByte(c)
		default:
			fmt.Fprintf(&sb, "%%%02X", c)
		}
	}
	return sb.String()
}

// Abs returns the absolute simulated path.
// A path that starts with "/" is already absolute (files of a second workspace root).
func Abs(rel string) string {
	if strings.HasPrefix(rel, "/") {
		return rel
	}
	return Root + "/" + rel
}

func (e *Engine) probe(name string) {
	e.res.Probes[name]++
}

func (e *Engine) fail(outcome, detail string) {
	if e.failed {
		return
	}
	e.failed = true
	e.res.Outcome = outcome
	e.res.Detail = detail
}

func (e *Engine) sendRaw(method string, params interface{}, isReq bool, opIdx int) *Answer {
	if e.connClosed {
		return nil // nothing can be sent on a closed connection
	}
	e.drain()
	inflight := 1
	for _, a := range e.res.Answers {
		if !a.Done {
			inflight++
		}
	}
	if inflight > e.res.Probes["max-handlers-in-flight"] {
		e.res.Probes["max-handlers-in-flight"] = inflight
	}
	if inflight >= 2 && !isReq {
		e.probe("notification-overlapping-request")
	}
	m := map[string]interface{}{"jsonrpc": "2.0", "method": method}
	if params != nil {
		m["params"] = params
	}
	var a *Answer
	if isReq {
		e.nextID++
		m["id"] = e.nextID
		a = &Answer{Op: opIdx, Method: method}
		e.byID[e.nextID] = a
		e.sentAt[e.nextID] = simrt.Steps()
		e.res.Answers = append(e.res.Answers, a)
	}
	b, _ := json.Marshal(m)
	e.ch.in <- b
	synctest.Wait()
	return a
}

// WindowMessages returns how many window/showMessage, logMessage notifications the server sent.
func (e *Engine) WindowMessages() int { e.drain(); return e.res.WindowMessages }

// drain folds everything the server has written so far into the result.
func (e *Engine) drain() {
	for _, b := range e.ch.take() {
		var m struct {
			ID     *int            `json:"id"`
			Method string          `json:"method"`
			Result json.RawMessage `json:"result"`
			Error  json.RawMessage `json:"error"`
			Params json.RawMessage `json:"params"`
		}
		if err := json.Unmarshal(b, &m); err != nil {
			e.fail(OutBadReply, "server wrote invalid JSON: "+err.Error())
			continue
		}
		switch {
		case m.Method == "textDocument/publishDiagnostics":
			var p struct {
				URI         string            `json:"uri"`
				Diagnostics []json.RawMessage `json:"diagnostics"`
			}
			json.Unmarshal(m.Params, &p)
			if strings.Contains(p.URI, "%") {
				if u, err := url.PathUnescape(p.URI); err == nil {
					p.URI = u // a client resolves both spellings to the same document
				}
			}
			ds := make([]string, 0, len(p.Diagnostics))
			for _, d := range p.Diagnostics {
				ds = append(ds, NormJSON(string(d)))
			}
			sort.Strings(ds)
			e.res.View[p.URI] = ds
			e.res.Publishes++
		case m.ID != nil && m.Method == "":
			a := e.byID[*m.ID]
			if a == nil {
				e.fail(OutBadReply, fmt.Sprintf("reply to unknown id %d", *m.ID))
				continue
			}
			if a.Done {
				e.fail(OutBadReply, fmt.Sprintf("second reply to id %d (%s)", *m.ID, a.Method))
				continue
			}
			a.Done = true
			a.Steps = simrt.Steps() - e.sentAt[*m.ID]
			if len(m.Error) > 0 && string(m.Error) != "null" {
				a.Err = string(m.Error)
			}
			a.Result = NormResult(a.Method, string(m.Result))
			if e.hooks.KeepRaw {
				a.Raw = string(m.Result)
			}
			if a.Method == "textDocument/completion" {
				// what a later completionItem/resolve picks its item from (Arg names the op)
				if e.completions == nil {
					e.completions = map[int]string{}
				}
				e.completions[a.Op] = string(m.Result)
			}
		case m.Method == "window/showMessage" || m.Method == "window/logMessage" || m.Method == "window/showMessageRequest":
			e.res.WindowMessages++ // the server told the user something
		case m.Method != "":
			// other server->client notifications (progress) are ignored
		}
	}
}

// stepOnce performs one scheduler step at quiescence; false when nothing is runnable.
func (e *Engine) stepOnce() bool {
	synctest.Wait()
	// a runaway run is sampled three times before the budget runs out; the functions present in
	// every sample are the stable part of the loop / recursion (a single sample catches the loop at
	// an arbitrary depth of its body)
	if e.budget == 9000 || e.budget == 7001 || e.budget == 5003 || e.budget == 3500 || e.budget == 2002 || e.budget == 1100 || e.budget == 501 {
		e.cycleSamples = append(e.cycleSamples, deepestFuncs())
	}
	if e.budget <= 0 {
		e.cycleSamples = append(e.cycleSamples, deepestFuncs())
		e.fail(OutBudget, "scheduler step budget exhausted; "+stableCycle(e.cycleSamples)+" at "+strings.Join(simrt.RunnableSites(), ","))
		return false
	}
	if !simrt.Step() {
		return false
	}
	e.budget--
	return true
}

// Settle runs the scheduler until no goroutine is runnable, then checks for deadlock.
func (e *Engine) Settle() {
	for !e.failed && e.stepOnce() {
	}
	synctest.Wait()
	e.drain()
	if e.failed {
		return
	}
	if n := simrt.Blocked(); n > 0 {
		e.fail(OutDeadlock, "lock waiters with nothing runnable: "+strings.Join(simrt.BlockedSites(), ","))
		return
	}
	for _, a := range e.res.Answers {
		if !a.Done && !e.connClosed {
			e.fail(OutStuck, fmt.Sprintf("request op#%d %s unanswered at quiescence with nothing runnable", a.Op, a.Method))
			return
		}
	}
	// nothing runnable, nobody waiting for a lock, every request answered: no goroutine is inside a
	// critical section, so a mutex that is still locked was locked on a path that never unlocks it
	// (the next message that needs it will hang)
	if h := simrt.HeldLocks(); len(h) > 0 {
		e.fail(OutLockLeak, "mutex still locked at quiescence with every request answered, locked at: "+strings.Join(h, ","))
	}
}

func posParams(rel string, p Pos) map[string]interface{} {
	return map[string]interface{}{"textDocument": map[string]interface{}{"uri": URI(rel)}, "position": map[string]interface{}{"line": p.Line, "character": p.Char}}
}

// Methods maps the short request names used in scenarios to LSP methods.
var Methods = map[string]string{
	"hover": "textDocument/hover", "definition": "textDocument/definition", "references": "textDocument/references",
	"rename": "textDocument/rename", "documentSymbol": "textDocument/documentSymbol", "workspaceSymbol": "workspace/symbol",
	"completion": "textDocument/completion", "signatureHelp": "textDocument/signatureHelp", "highlight": "textDocument/documentHighlight",
	"varColor": "luahelper/getVarColor", "documentColor": "textDocument/documentColor", "codeLens": "textDocument/codeLens",
	"documentLink": "textDocument/documentLink", "online": "luahelper/getOnlineReq", "shutdown": "shutdown", "resolve": "completionItem/resolve",
}

func (e *Engine) buildReq(op *Op) (string, interface{}) {
	method := Methods[op.Method]
	if method == "" {
		method = op.Method
	}
	if len(op.Params) > 0 {
		var v interface{}
		json.Unmarshal(op.Params, &v)
		return method, v
	}
	p := Pos{}
	if op.Pos != nil {
		p = *op.Pos
	}
	switch op.Method {
	case "hover", "definition", "highlight", "signatureHelp":
		return method, posParams(op.Path, p)
	case "completion":
		m := posParams(op.Path, p)
		m["context"] = map[string]interface{}{"triggerKind": 1}
		return method, m
	case "references":
		m := posParams(op.Path, p)
		m["context"] = map[string]interface{}{"includeDeclaration": true}
		return method, m
	case "rename":
		m := posParams(op.Path, p)
		name := op.Arg
		if name == "" {
			name = "renamed_x"
		}
		m["newName"] = name
		return method, m
	case "documentSymbol", "documentColor", "codeLens", "documentLink":
		return method, map[string]interface{}{"textDocument": map[string]interface{}{"uri": URI(op.Path)}}
	case "workspaceSymbol":
		return method, map[string]interface{}{"query": op.Arg}
	case "varColor":
		return method, map[string]interface{}{"uri": URI(op.Path)}
	case "resolve":
		// the client resolves item N of the completion list it received in answer to op #Arg
		src, _ := strconv.Atoi(op.Arg)
		if raw := e.completions[src]; raw != "" {
			var list struct {
				Items []json.RawMessage `json:"items"`
			}
			if json.Unmarshal([]byte(raw), &list) == nil && len(list.Items) > 0 {
				var item interface{}
				json.Unmarshal(list.Items[op.N%len(list.Items)], &item)
				return method, item
			}
		}
		return method, map[string]interface{}{"label": "none", "data": 0}
	case "online":
		return method, map[string]interface{}{"Req": 1}
	case "shutdown":
		return method, nil
	}
	return method, map[string]interface{}{}
}

// watched: the client's file watcher covers its workspace folders only; what happens to a file
// elsewhere (a document opened from outside the workspace) is never reported.
func (e *Engine) watched(rel string) bool {
	p := Abs(rel)
	fs := e.CurFolders()
	if len(fs) == 0 {
		fs = []string{Root}
	}
	for _, f := range fs {
		if strings.HasPrefix(p, strings.TrimSuffix(f, "/")+"/") {
			return true
		}
	}
	return false
}

func (e *Engine) queueEvent(rel string, typ int) {
	if !e.watched(rel) {
		e.probe("event.not-watched-outside-workspace")
		return
	}
	e.events = append(e.events, pendingEvt{rel, typ})
}

func (e *Engine) sendEvents(evts []pendingEvt, opIdx int, async bool) {
	var changes []interface{}
	for _, ev := range evts {
		if !e.watched(ev.path) {
			e.probe("event.not-watched-outside-workspace")
			continue
		}
		changes = append(changes, map[string]interface{}{"uri": URI(ev.path), "type": ev.typ})
	}
	if len(changes) == 0 {
		return
	}
	e.sendRaw("workspace/didChangeWatchedFiles", map[string]interface{}{"changes": changes}, false, opIdx)
	if !async {
		e.Settle()
	}
}

// exec interprets one op.
func (e *Engine) exec(i int, op *Op) {
	settle := func() {
		if !op.Async {
			e.Settle()
		}
	}
	switch op.Kind {
	case "open":
		if _, isOpen := e.Open[op.Path]; isOpen {
			e.res.Skipped = append(e.res.Skipped, i)
			return
		}
		var text []byte
		if op.Text != nil {
			text = []byte(*op.Text)
		} else {
			d, ok := simfs.Content(Abs(op.Path))
			if !ok {
				e.res.Skipped = append(e.res.Skipped, i)
				return
			}
			text = d
		}
		e.Open[op.Path] = text
		e.ClientSaved[op.Path] = string(text)
		d, ok := simfs.Content(Abs(op.Path))
		e.Saved[op.Path] = ok && string(d) == string(text)
		e.version[op.Path] = 1
		e.sendRaw("textDocument/didOpen", map[string]interface{}{"textDocument": map[string]interface{}{"uri": spellURI(op), "languageId": "lua", "version": 1, "text": string(text)}}, false, i)
		settle()
	case "clear":
		// select all + delete: one range edit from the start to the end of the buffer as it is now
		cur, isOpen := e.Open[op.Path]
		if !isOpen {
			e.res.Skipped = append(e.res.Skipped, i)
			return
		}
		c2 := *op
		c2.Kind = "change"
		c2.Edits = []Edit{{Start: Pos{0, 0}, End: PosOf(cur, len(cur)), Text: ""}}
		e.exec(i, &c2)
		return
	case "change":
		cur, isOpen := e.Open[op.Path]
		if !isOpen || len(op.Edits) == 0 {
			e.res.Skipped = append(e.res.Skipped, i)
			return
		}
		var changes []interface{}
		next := cur
		for _, ed := range op.Edits {
			n2, err := Apply(next, ed)
			if err != nil {
				e.res.Skipped = append(e.res.Skipped, i)
				return
			}
			next = n2
			if ed.Full {
				changes = append(changes, map[string]interface{}{"text": ed.Text})
			} else {
				changes = append(changes, map[string]interface{}{"range": map[string]interface{}{"start": ed.Start, "end": ed.End}, "text": ed.Text})
			}
		}
		e.Open[op.Path] = next
		d, ok := simfs.Content(Abs(op.Path))
		e.Saved[op.Path] = ok && string(d) == string(next)
		e.Reverted[op.Path] = e.Saved[op.Path]
		e.version[op.Path]++
		e.sendRaw("textDocument/didChange", map[string]interface{}{"textDocument": map[string]interface{}{"uri": spellURI(op), "version": e.version[op.Path]}, "contentChanges": changes}, false, i)
		settle()
	case "save":
		cur, isOpen := e.Open[op.Path]
		if !isOpen {
			e.res.Skipped = append(e.res.Skipped, i)
			return
		}
		if op.NoWrite {
			if op.Text != nil {
				cur = []byte(*op.Text)
			}
			e.sendRaw("textDocument/didSave", map[string]interface{}{"textDocument": map[string]interface{}{"uri": spellURI(op)}, "text": string(cur)}, false, i)
			settle()
			return
		}
		existed := simfs.Exists(Abs(op.Path))
		simfs.WriteFile(Abs(op.Path), cur)
		e.ClientSaved[op.Path] = string(cur)
		e.Saved[op.Path] = true
		delete(e.External, op.Path)
		delete(e.Reverted, op.Path)
		if e.res.SaveTexts == nil {
			e.res.SaveTexts = map[int]string{}
		}
		e.res.SaveTexts[i] = string(cur)
		if !op.NoEvt {
			if existed {
				e.queueEvent(op.Path, 2)
			} else {
				e.queueEvent(op.Path, 1)
			}
		}
		e.sendRaw("textDocument/didSave", map[string]interface{}{"textDocument": map[string]interface{}{"uri": spellURI(op)}, "text": string(cur)}, false, i)
		settle()
	case "close":
		if _, isOpen := e.Open[op.Path]; !isOpen {
			e.res.Skipped = append(e.res.Skipped, i)
			return
		}
		delete(e.Open, op.Path)
		delete(e.ClientSaved, op.Path)
		delete(e.Saved, op.Path)
		delete(e.External, op.Path)
		delete(e.Reverted, op.Path)
		e.sendRaw("textDocument/didClose", map[string]interface{}{"textDocument": map[string]interface{}{"uri": spellURI(op)}}, false, i)
		settle()
	case "fswrite":
		existed := simfs.Exists(Abs(op.Path))
		simfs.WriteFile(Abs(op.Path), op.Data)
		if cur, isOpen := e.Open[op.Path]; isOpen {
			e.Saved[op.Path] = string(cur) == string(op.Data)
			// the world wrote the file of an open document: from here until the next save / close the
			// relation between buffer and disk was not produced by the editor (even if the bytes
			// happen to coincide), and neither clause of C08 describes it
			e.External[op.Path] = true
		}
		if !op.NoEvt {
			if existed {
				e.queueEvent(op.Path, 2)
			} else {
				e.queueEvent(op.Path, 1)
			}
		}
	case "fsremove":
		if !simfs.Exists(Abs(op.Path)) {
			e.res.Skipped = append(e.res.Skipped, i)
			return
		}
		simfs.Remove(Abs(op.Path))
		if _, isOpen := e.Open[op.Path]; isOpen {
			e.Saved[op.Path] = false
			e.External[op.Path] = true
		}
		if !op.NoEvt {
			e.queueEvent(op.Path, 3)
		}
	case "deliver":
		n := op.N
		if n <= 0 || n > len(e.events) {
			n = len(e.events)
		}
		batch := e.events[:n]
		e.events = append([]pendingEvt(nil), e.events[n:]...)
		e.sendEvents(batch, i, op.Async)
	case "event":
		typ := op.N
		if typ == 0 {
			// a duplicate of an event that is true for the current disk state
			typ = 3
			if simfs.Exists(Abs(op.Path)) {
				typ = 2
			}
		}
		e.sendEvents([]pendingEvt{{op.Path, typ}}, i, op.Async)
	case "touchq":
		// the watcher reports a change for a file whose bytes did not change (touch, checkout of
		// identical content); queued like any other event
		if simfs.Exists(Abs(op.Path)) {
			e.queueEvent(op.Path, 2)
		}
	case "touch":
		if simfs.Exists(Abs(op.Path)) {
			e.sendEvents([]pendingEvt{{op.Path, 2}}, i, op.Async)
		}
	case "req":
		method, params := e.buildReq(op)
		a := e.sendRaw(method, params, true, i)
		settle()
		if method == "initialize" && a != nil && a.Done && a.Err != "" {
			// the server refused to initialise (e.g. unreadable luahelper.json): a conformant client
			// stops here
			e.initRefused = true
			e.probe("initialize-refused")
		}
	case "notify":
		var v interface{}
		if len(op.Params) > 0 {
			json.Unmarshal(op.Params, &v)
		}
		e.sendRaw(op.Method, v, false, i)
		settle()
	case "config":
		var v interface{}
		json.Unmarshal(op.Params, &v)
		e.sendRaw("workspace/didChangeConfiguration", map[string]interface{}{"settings": v}, false, i)
		settle()
	case "folders":
		var v interface{}
		json.Unmarshal(op.Params, &v)
		e.applyFolders(op.Params)
		e.sendRaw("workspace/didChangeWorkspaceFolders", map[string]interface{}{"event": v}, false, i)
		settle()
	case "cancel":
		// cancel the request issued by op index N (if still pending)
		for id, a := range e.byID {
			if a.Op == op.N && !a.Done {
				e.sendRaw("$/cancelRequest", map[string]interface{}{"id": id}, false, i)
				e.probe("cancel.sent-while-pending")
			}
		}
		settle()
	case "check":
		// oracle checkpoint: interpreted by the property's AfterOp hook
	case "step":
		for k := 0; k < op.N && !e.failed; k++ {
			if !e.stepOnce() {
				break
			}
		}
		synctest.Wait()
		e.drain()
	case "settle":
		e.Settle()
	case "clock":
		simrt.AdvanceClock(time.Duration(op.N) * time.Millisecond)
		settle()
	case "faults":
		simfs.SetFaults(op.Faults)
	case "clearfaults":
		simfs.ClearFaults()
	case "net":
		cs := simrt.Conns()
		switch {
		case strings.HasPrefix(op.Net, "faildial:"):
			var n int
			fmt.Sscanf(op.Net, "faildial:%d", &n)
			simrt.FailDials(n)
		case len(cs) == 0:
			e.res.Skipped = append(e.res.Skipped, i)
		case strings.HasPrefix(op.Net, "deliver:"):
			cs[len(cs)-1].Deliver([]byte(strings.TrimPrefix(op.Net, "deliver:")), nil)
			settle()
		case op.Net == "readerr":
			cs[len(cs)-1].Deliver(nil, io.ErrUnexpectedEOF)
			settle()
		case strings.HasPrefix(op.Net, "failwrite:"):
			var n int
			fmt.Sscanf(op.Net, "failwrite:%d", &n)
			cs[len(cs)-1].FailWrites(n)
		}
	case "closeconn":
		e.connClosed = true
		e.ch.Close()
		synctest.Wait()
		// handlers still in flight now see a closed connection; let them run to the end
		for !e.failed && e.stepOnce() {
		}
		synctest.Wait()
		e.drain()
		if n := simrt.Blocked(); n > 0 && !e.failed {
			e.fail(OutDeadlock, "after close: "+strings.Join(simrt.BlockedSites(), ","))
		}
	default:
		e.fail(OutInvalid, "unknown op kind "+op.Kind)
	}
}

// Query executes request ops synchronously (oracle query batteries) and returns their answers.
var traceRuns int

func (e *Engine) Query(ops []Op) []*Answer {
	var out []*Answer
	for k := range ops {
		if e.failed {
			break
		}
		n := len(e.res.Answers)
		e.exec(100000+k, &ops[k])
		if len(e.res.Answers) > n {
			out = append(out, e.res.Answers[n])
		}
	}
	return out
}

// ViewCopy returns a copy of the folded diagnostics view.
func (e *Engine) ViewCopy() map[string][]string {
	m := map[string][]string{}
	for k, v := range e.res.View {
		if len(v) > 0 {
			m[k] = append([]string(nil), v...)
		}
	}
	return m
}

// OpenDocs lists the open documents (sorted) with their buffer text.
func (e *Engine) OpenDocs() []File {
	var out []File
	for p, t := range e.Open {
		out = append(out, File{Path: p, Data: append(Bytes(nil), t...)})
	}
	sort.Slice(out, func(i, j int) bool { return out[i].Path < out[j].Path })
	return out
}

// DirtyDocs lists open documents whose buffer differs from the disk file.
func (e *Engine) DirtyDocs() []string {
	var out []string
	for p, ok := range e.Saved {
		if !ok {
			out = append(out, p)
		}
	}
	sort.Strings(out)
	return out
}

// ClientEdited: the open document's buffer differs from what the editor last opened or saved
// (it has unsaved edits in the editor's own sense).
func (e *Engine) ClientEdited(p string) bool {
	cur, open := e.Open[p]
	return open && string(cur) != e.ClientSaved[p]
}

// applyFolders keeps the client's own list of workspace folders up to date.
func (e *Engine) applyFolders(params json.RawMessage) {
	var ev struct {
		Added, Removed []struct {
			URI string `json:"uri"`
		}
	}
	if json.Unmarshal(params, &ev) != nil {
		return
	}
	if e.folders == nil {
		e.folders = append([]string(nil), e.sc.Folders...)
		if len(e.folders) == 0 {
			e.folders = []string{Root}
		}
	}
	for _, a := range ev.Added {
		p := strings.TrimPrefix(a.URI, "file://")
		have := false
		for _, f := range e.folders {
			have = have || f == p
		}
		if !have {
			e.folders = append(e.folders, p)
		}
	}
	for _, r := range ev.Removed {
		p := strings.TrimPrefix(r.URI, "file://")
		var keep []string
		for _, f := range e.folders {
			if f != p {
				keep = append(keep, f)
			}
		}
		e.folders = keep
	}
}

// CurFolders returns the workspace folders the client currently has (nil = just the root).
func (e *Engine) CurFolders() []string {
	if e.folders == nil {
		return append([]string(nil), e.sc.Folders...)
	}
	return append([]string(nil), e.folders...)
}

// DiskFiles returns the current disk tree below Root as scenario files.
func DiskFiles() []File {
	var out []File
	for _, p := range simfs.Files() {
		d, _ := simfs.Content(p)
		if !strings.HasPrefix(p, Root+"/") {
			if strings.HasPrefix(p, "/ws2/") || strings.HasPrefix(p, "/outside/") || strings.HasPrefix(p, "/second/") {
				out = append(out, File{Path: p, Data: d}) // a second workspace root: absolute path
			}
			continue
		}
		out = append(out, File{Path: strings.TrimPrefix(p, Root+"/"), Data: d})
	}
	return out
}

// AllSaved reports whether every open buffer equals its disk file and no watcher event is pending.
func (e *Engine) AllSaved() bool {
	if len(e.events) > 0 {
		return false
	}
	for _, ok := range e.Saved {
		if !ok {
			return false
		}
	}
	return true
}

// PendingEvents returns how many watcher events are queued.
func (e *Engine) PendingEvents() int { return len(e.events) }

// Result gives hooks access to the result so far.
func (e *Engine) Result() *RunResult { return e.res }

// DocText returns the server's copy of an open document.
func (e *Engine) DocText(rel string) ([]byte, bool) {
	simrt.RaceOff()
	defer simrt.RaceOn()
	return langserver.SimDocText(Abs(rel))
}

func resetGlobals() {
	log.InitLog(false)
	common.GlobalConfigDefautInit()
	common.GConfig.IntialGlobalVar()
	langserver.SimResetGlobals()
}

// DefaultMaxSteps bounds a run.
const DefaultMaxSteps = 400000

// Run executes the scenario under schedule cfg and returns what was observed.
func Run(t *testing.T, sc *Scenario, cfg simrt.Config, hooks Hooks) *RunResult {
	res := &RunResult{Outcome: OutOK, View: map[string][]string{}, Probes: map[string]int{}}
	// synctest.Test calls FailNow on its *testing.T when the bubble's test failed (which the
	// testing package decides on its own when the race detector has reported something); a
	// throw-away subtest absorbs that so the worker loop keeps going.
	t.Run("run", func(st *testing.T) { runInBubble(st, sc, cfg, hooks, res) })
	return res
}

func runInBubble(t *testing.T, sc *Scenario, cfg simrt.Config, hooks Hooks, res *RunResult) {
	// A goroutine that is blocked for good in an operation the simulator cannot wake (a real
	// WaitGroup whose members are gone, ...) makes the bubble end with synctest's "deadlock: main
	// bubble goroutine has exited but blocked goroutines remain" panic.  The run's verdict has been
	// recorded by then (such a run is reported as stuck / deadlocked on its own evidence), so the
	// panic is absorbed; the blocked goroutines are leaked until the worker process is recycled.
	defer func() {
		if r := recover(); r != nil {
			if strings.Contains(fmt.Sprint(r), "blocked goroutines remain") {
				res.Probes["teardown.leaked-blocked-goroutines"]++
				simrt.Stop()
				simfs.Off()
				return
			}
			panic(r)
		}
	}()
	synctest.Test(t, func(t *testing.T) {
		e := &Engine{sc: sc, res: res, hooks: hooks, byID: map[int]*Answer{}, sentAt: map[int]int{}, Open: map[string][]byte{}, Saved: map[string]bool{}, External: map[string]bool{}, Reverted: map[string]bool{}, ClientSaved: map[string]string{}, version: map[string]int{}}
		e.budget = hooks.MaxSteps
		if e.budget == 0 {
			e.budget = DefaultMaxSteps
		}
		e.start = time.Now()
		resetGlobals()
		simfs.Reset()
		simfs.MkdirAll(Root)
		for _, f := range sc.Files {
			if f.Link != "" {
				simfs.Symlink(Abs(f.Path), f.Link)
			} else {
				simfs.WriteFile(Abs(f.Path), f.Data)
			}
		}
		if sc.Plugin {
			for n, d := range pluginFiles {
				simfs.WriteFile(PluginDir+"/server/meta/"+n, []byte(d))
			}
		}
		if os.Getenv("VERIF_TRACE") != "" {
			cfg.KeepTrace = true
		}
		simrt.Reset(cfg)
		srv := langserver.CreateServer()
		e.ch = newSimChan()
		srv.Start(e.ch)
		synctest.Wait()
		if !sc.NoInit {
			opts := sc.InitOpts
			if opts == nil {
				opts = AllOn()
			}
			if sc.Plugin {
				o2 := map[string]interface{}{}
				for k, v := range opts {
					o2[k] = v
				}
				o2["PluginPath"] = PluginDir
				opts = o2
			}
			p := map[string]interface{}{"rootUri": "file://" + Root, "rootPath": Root, "initializationOptions": opts}
			if len(sc.Folders) > 0 {
				var fs []interface{}
				for _, f := range sc.Folders {
					fs = append(fs, map[string]interface{}{"uri": "file://" + f, "name": f})
				}
				p["workspaceFolders"] = fs
			}
			ia := e.sendRaw("initialize", p, true, -1)
			e.Settle()
			if ia != nil && ia.Done && ia.Err != "" {
				e.initRefused = true
				e.probe("initialize-refused")
			}
			if !e.initRefused {
				e.sendRaw("initialized", map[string]interface{}{}, false, -1)
				if !sc.Eager {
					e.Settle()
				}
			}
			if sc.FirstCfg && !e.initRefused {
				e.sendRaw("workspace/didChangeConfiguration", map[string]interface{}{"settings": map[string]interface{}{}}, false, -1)
				if !sc.Eager {
					e.Settle()
				}
			}
		}
		for i := range sc.Ops {
			if e.failed || e.initRefused {
				break
			}
			e.curOp = i
			e.exec(i, &sc.Ops[i])
			if hooks.AfterOp != nil && !e.failed {
				if msg := hooks.AfterOp(e, i, &sc.Ops[i]); msg != "" {
					e.fail("oracle", msg)
				}
			}
		}
		if !e.failed {
			e.Settle()
		}
		// teardown
		res.SimMillis = time.Since(e.start).Milliseconds()
		res.Tape = simrt.RecordedTape()
		res.Stats = simrt.Snapshot()
		if f := os.Getenv("VERIF_TRACE"); f != "" {
			// VERIF_TRACE_RUN selects which run of the check is written (default 1: for C10 the
			// concurrent one; 2 is the first sequential order, ...)
			traceRuns++
			want, _ := strconv.Atoi(os.Getenv("VERIF_TRACE_RUN"))
			if want == 0 {
				want = 1
			}
			if traceRuns == want {
				os.WriteFile(f, []byte(strings.Join(res.Stats.Trace, "\n")), 0644)
			}
			res.Stats.Trace = nil
		}
		res.FsFired = simfs.Fired()
		res.FsCalls = simfs.Calls()
		res.Net = simrt.NetStats()
		e.ch.Close()
		synctest.Wait()
		simrt.KillAll()
		synctest.Wait()
		simrt.Stop()
		simfs.Off()
		if len(res.Stats.Recovered) > 0 && res.Outcome == OutOK {
			res.Outcome = OutRecovered
			res.Detail = strings.Join(res.Stats.Recovered, " ;; ")
		}
	})
}

var stackFrameRe = regexp.MustCompile(`(?m)^(luahelper-lsp/[^\s(]+(?:\([^)]*\))?[^\s(]*)\(`)

// deepestCycle names the functions of the deepest server stack (the runaway recursion when a
// run exhausts its step budget): the sorted set of distinct functions among its innermost 80
// server frames.
// deepestFuncs returns the server functions of the deepest server stack, outermost first.  For
// a very deep stack (runaway recursion) only the innermost 80 frames are available and the result
// is their de-duplicated set, sorted and prefixed with "~" (the marker of a recursion sample).
func deepestFuncs() []string {
	buf := make([]byte, 8<<20)
	buf = buf[:runtime.Stack(buf, true)]
	best := ""
	bestN := 0
	deep := false
	for _, g := range strings.Split(string(buf), "\n\n") {
		n := strings.Count(g, "\n")
		elided := strings.Contains(g, "frames elided")
		if elided {
			n = 1 << 30
		}
		if strings.Contains(g, "luahelper-lsp/") && n > bestN {
			best, bestN, deep = g, n, elided || n > 400
		}
	}
	var fns []string
	for _, m := range stackFrameRe.FindAllStringSubmatch(best, -1) {
		fns = append(fns, m[1][strings.LastIndex(m[1], "/")+1:])
	}
	if deep {
		if len(fns) > 80 {
			fns = fns[:80]
		}
		seen := map[string]bool{}
		var set []string
		for _, f := range fns {
			if !seen[f] {
				seen[f] = true
				set = append(set, f)
			}
		}
		sort.Strings(set)
		return append([]string{"~"}, set...)
	}
	// outermost first
	for i, j := 0, len(fns)-1; i < j; i, j = i+1, j-1 {
		fns[i], fns[j] = fns[j], fns[i]
	}
	return fns
}

// stableCycle combines the samples: for recursion samples the functions present in every
// sample; for shallow stacks (a loop) the common outermost prefix, i.e. the path down to the
// function that contains the loop.
func stableCycle(samples [][]string) string {
	if len(samples) == 0 {
		return "cycle{}"
	}
	recursion := false
	for _, s := range samples {
		if len(s) > 0 && s[0] == "~" {
			recursion = true
		}
	}
	if recursion {
		count := map[string]int{}
		n := 0
		for _, s := range samples {
			if len(s) > 0 && s[0] == "~" {
				n++
				for _, f := range s[1:] {
					count[f]++
				}
			}
		}
		var fns []string
		for f, c := range count {
			if c == n {
				fns = append(fns, f)
			}
		}
		sort.Strings(fns)
		return "cycle{" + strings.Join(fns, ",") + "}"
	}
	prefix := samples[0]
	for _, s := range samples[1:] {
		k := 0
		for k < len(prefix) && k < len(s) && prefix[k] == s[k] {
			k++
		}
		prefix = prefix[:k]
	}
	if len(prefix) > 4 {
		prefix = prefix[len(prefix)-4:]
	}
	return "loop-under{" + strings.Join(prefix, " > ") + "}"
}
