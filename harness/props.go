package harness

import (
	"fmt"
	"math/rand"
	"sort"
	"testing"

	"simrt"
)

// Verdict is the outcome of checking one scenario against one property.
type Verdict struct {
	OK        bool      `json:"ok"`
	Invalid   bool      `json:"invalid,omitempty"` // scenario not meaningful (minimiser artefact); never a violation
	Class     string    `json:"class,omitempty"`   // violation class (stable while minimising)
	Signature string    `json:"signature,omitempty"`
	Detail    string    `json:"detail,omitempty"`
	Scenario  *Scenario `json:"scenario,omitempty"` // replayable scenario (tapes filled in) for violations

	// coverage accounting
	Runs       int            `json:"runs"`
	Steps      int            `json:"steps"`
	SimMillis  int64          `json:"sim_ms"`
	Fired      map[string]int `json:"fired,omitempty"`  // fault kinds that actually fired
	Probes     map[string]int `json:"probes,omitempty"` // rare-condition probes
	Sites      map[string]int `json:"sites,omitempty"`
	Traces     []string       `json:"traces,omitempty"` // schedule-trace hashes of the runs
	NonTrivial bool           `json:"nontrivial"`
	Shape      string         `json:"shape,omitempty"` // fingerprint used to count distinct cases
	Uncontrolled map[string]int `json:"uncontrolled,omitempty"`
	Ambiguous  int            `json:"ambiguous,omitempty"`
}

func (v *Verdict) absorb(r *RunResult) {
	v.Runs++
	v.Steps += r.Stats.Steps
	v.SimMillis += r.SimMillis
	if v.Fired == nil {
		v.Fired = map[string]int{}
		v.Probes = map[string]int{}
		v.Sites = map[string]int{}
		v.Uncontrolled = map[string]int{}
	}
	for k, n := range r.FsFired {
		v.Fired["fs."+k] += n
	}
	for k, n := range r.Net {
		v.Fired["net."+k] += n
	}
	for k, n := range r.Stats.Probes {
		v.Probes[k] += n
	}
	for k, n := range r.Probes {
		v.Probes[k] += n
	}
	for k, n := range r.Stats.Sites {
		v.Sites[k] += n
	}
	for k, n := range r.Stats.UncontrolledRanges {
		v.Uncontrolled[k] += n
	}
	v.Ambiguous += r.Stats.Ambiguous
	v.Traces = append(v.Traces, r.Stats.TraceHash)
}

// fromRun turns a generic bad outcome of a run into a violation verdict (used by every property:
// a crash-free but deadlocked / stuck / panic-swallowing run violates C01 and is reported under
// the property being explored only when that property says so).
func (v *Verdict) violation(class, sig, detail string, sc *Scenario) *Verdict {
	v.OK = false
	v.Class = class
	v.Signature = sig
	v.Detail = detail
	c := sc.Clone()
	c.Expect = class
	c.Detail = detail
	v.Scenario = c
	return v
}

// Property is one claimed property: a generator and an oracle.
type Property struct {
	ID    string
	Gen   func(seed int64, tier string) *Scenario
	Check func(t *testing.T, sc *Scenario) *Verdict
}

var registry = map[string]*Property{}

func register(p *Property) { registry[p.ID] = p }

// PropertyIDs lists the registered properties.
func PropertyIDs() []string {
	var ids []string
	for k := range registry {
		ids = append(ids, k)
	}
	sort.Strings(ids)
	return ids
}

// ---- schedule knobs ---------------------------------------------------------------------------

// Canonical is the schedule every differential reference run uses: lowest-id goroutine first,
// sorted map order, fixed pool width.
func Canonical() simrt.Config {
	return simrt.Config{Policy: "lowest", MapPolicy: "sorted", NumCPU: 4, UseTape: true}
}

// RandomSched draws a schedule configuration (swarm style).
func RandomSched(r *rand.Rand) simrt.Config {
	c := simrt.Config{Seed: r.Int63()}
	switch r.Intn(6) {
	case 0:
		c.Policy = "uniform"
	case 1, 2:
		c.Policy = "sticky"
		c.Stick = []int{50, 80, 95}[r.Intn(3)]
	case 3, 4:
		c.Policy = "pct"
		c.PCTDepth = 1 + r.Intn(3)
		c.PCTSpan = []int{50, 300, 1500}[r.Intn(3)]
	case 5:
		c.Policy = "highest"
	}
	// bias pool width to small values so that the refill branch of the worker pools runs
	c.NumCPU = []int{1, 1, 2, 2, 3, 4, 6, 8, 16, 20}[r.Intn(10)]
	c.MapPolicy = []string{"sorted", "reversed", "random", "random"}[r.Intn(4)]
	if r.Intn(2) == 0 {
		// every read-side file-system call of the server is a scheduling point in this run
		c.Knobs = map[string]int{"fsyield": 1}
	}
	if r.Intn(3) == 0 {
		// a few per mille of the server's functions (chosen by the schedule seed) yield at entry
		if c.Knobs == nil {
			c.Knobs = map[string]int{}
		}
		c.Knobs["fnyield"] = 2 + r.Intn(7)
	}
	return c
}

func schedString(c simrt.Config) string {
	return fmt.Sprintf("%s/stick%d/pct%d/cpu%d/map-%s", c.Policy, c.Stick, c.PCTDepth, c.NumCPU, c.MapPolicy)
}

// withTape returns cfg turned into a pure replay of the recorded tape.
func withTape(c simrt.Config, tape []int) simrt.Config {
	c.Tape = tape
	c.UseTape = true
	return c
}
