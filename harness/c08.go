package harness

import (
	"encoding/json"
	"fmt"
	"math/rand"
	"regexp"
	"sort"
	"strings"
	"testing"

	"simrt/simfs"
)

// C08 — after any edit / file-event history, diagnostics and answers equal those of a fresh
// start; while a buffer has unsaved edits its file shows that buffer's syntax errors, else its
// last saved non-syntax diagnostics.

func init() { register(&Property{ID: "C08", Gen: genC08, Check: checkC08}) }

var c08Names = []string{"a.lua", "b.lua", "c.lua", "sub/d.lua", "mod/init.lua", "sub/e.lua"}

// c08Variants: content variants; %s is replaced by a per-file tag so that some names are unique
// and others (gA, fA, K) are deliberately shared across files.
var c08Variants = []string{
	/* 0 clean            */ "local x%[1]s = 1\nprint(x%[1]s)\n",
	/* 1 syntax error     */ "local x%[1]s = \nprint(\n",
	/* 2 syntax error 2   */ "function f%[1]s(a\n  return a\nend\n",
	/* 3 unused local     */ "local unused%[1]s = 1\nlocal t = { k = 1, k = 2 }\nprint(t)\n",
	/* 4 undefined global */ "print(undefined_%[1]s)\nprint(gA)\n",
	/* 5 defines globals  */ "gA = 1\nfunction fA(a, b)\n  return a\nend\ng%[1]s = 2\n",
	/* 6 uses globals     */ "print(gA)\nfA(1, 2, 3)\nlocal y = gA\nprint(y)\n",
	/* 7 requires c       */ "local m = require(\"c\")\nprint(m)\n",
	/* 8 requires mod     */ "local m = require(\"mod\")\nprint(m.f)\nlocal d = require(\"sub.d\")\nprint(d)\n",
	/* 9 module           */ "local M = {}\nfunction M.f()\nend\nM.v%[1]s = 1\nreturn M\n",
	/* 10 class           */ "---@class K\n---@field a number\nK = {}\nfunction K:m%[1]s() end\n",
	/* 11 class user      */ "---@type K\nlocal k = nil\nprint(k.a, k.zz)\nk:m%[1]s()\n",
	/* 12 defines fA/1    */ "function fA(a)\n  return a\nend\n",
	/* 13 empty           */ "",
	/* 14 goto + misc     */ "goto done\nlocal q = 1\nq = q\n::done::\nprint(1 == 1.5)\n",
	/* 15 extends K       */ "function K:ext%[1]s() end\nK.v%[1]s = 1\nfunction K:shared() end\n",
	/* 16 uses K members  */ "print(K, K.shared, K.nosuchmember)\nK:shared()\n",
}

func c08Content(r *rand.Rand, name string) string {
	tag := strings.Map(func(c rune) rune {
		if c >= 'a' && c <= 'z' || c >= 'A' && c <= 'Z' || c >= '0' && c <= '9' {
			return c
		}
		if c > 127 {
			return 'u'
		}
		return '_'
	}, name)
	v := c08Variants[r.Intn(len(c08Variants))]
	if strings.Contains(v, "%[1]s") {
		return fmt.Sprintf(v, tag)
	}
	return v
}

func genC08(seed int64, tier string) *Scenario {
	r := rand.New(rand.NewSource(seed))
	sc := &Scenario{Prop: "C08", Seed: seed, Knobs: map[string]interface{}{}, Sched: Canonical()}
	faulty := r.Intn(4) == 0
	anomalies := r.Intn(3) == 0 // watcher anomalies: delayed, batched, duplicated, stale events
	if r.Intn(3) == 0 {
		sc.Sched = RandomSched(r)
	}
	sc.Knobs["faulty"], sc.Knobs["anomalies"] = faulty, anomalies
	sc.Plugin = r.Intn(3) == 0
	// a client that goes on with its first messages right after `initialized`, without waiting for
	// the start-up diagnostics to arrive
	sc.Eager = r.Intn(6) == 0
	// Documents outside the workspace are NOT part of C08's histories: while such a document is open
	// the server analyses it together with the workspace and closing it does not re-run what depended
	// on it (findings/C08-outside-document-closed-class-still-resolved.json), which shows up under a
	// dozen different signatures; see DESIGN §7.  C02, C10 and C01 do use them.
	outside := false
	names := append([]string(nil), c08Names...)
	r.Shuffle(len(names), func(i, j int) { names[i], names[j] = names[j], names[i] })
	names = names[:3+r.Intn(4)]
	if outside {
		// a document outside every workspace folder takes part in the history (opened, edited,
		// saved, closed like the others); closing it must also withdraw what was shown for it
		names = append(names, "/outside/o.lua")
		sc.Knobs["outside"] = true
	}
	if r.Intn(5) == 0 {
		// a file whose name the editor has to percent-encode in every URI it sends
		special := []string{"my dir/f g.lua", "mod+x/a+b.lua", "ünï/文件.lua", "sub/d~(1).lua", "lib/c.v2.lua", "lib/c.v2.lua"}[r.Intn(6)] // the last: a second dot in a module's file name
		names = append(names, special)
		sc.Knobs["named"] = special
	}
	sort.Strings(names)
	exists := map[string]bool{}
	for _, n := range names {
		if r.Intn(4) > 0 {
			sc.Files = append(sc.Files, File{Path: n, Data: Bytes(c08Content(r, n))})
			exists[n] = true
		}
	}
	if r.Intn(5) == 0 {
		// luahelper.json project mode: one or two entry files; what they require is analysed by the
		// project (second) pass, everything else by the scattered-files (third) pass, and a module
		// may feed both
		entries := []string{names[r.Intn(len(names))]}
		if r.Intn(2) == 0 {
			entries = append(entries, names[r.Intn(len(names))])
		}
		cfg := map[string]interface{}{"BaseDir": "./", "ShowWarnFlag": 1, "ProjectFiles": entries}
		b, _ := json.Marshal(cfg)
		sc.Files = append(sc.Files, File{Path: "luahelper.json", Data: Bytes(b)})
		sc.Knobs["project"] = entries
	}
	// a second workspace root that comes and goes (didChangeWorkspaceFolders) during the history
	ws2 := r.Intn(5) == 0
	ws2In := false
	ws2Root := "/ws2" // beside the root; its name shares the root's as a prefix, or (below) does not
	if ws2 && r.Intn(2) == 0 {
		ws2Root = "/second"
	}
	ws2Files := []string{ws2Root + "/x.lua", ws2Root + "/sub/y.lua"}
	folderEvent := func(add bool) Op {
		ev := map[string]interface{}{"added": []interface{}{}, "removed": []interface{}{}}
		k := "removed"
		if add {
			k = "added"
		}
		ev[k] = []interface{}{map[string]interface{}{"uri": "file://" + ws2Root, "name": "ws2"}}
		b, _ := json.Marshal(ev)
		return Op{Kind: "folders", Params: b}
	}
	if ws2 {
		for _, n := range ws2Files {
			sc.Files = append(sc.Files, File{Path: n, Data: Bytes(c08Content(r, n))})
		}
		if r.Intn(2) == 0 {
			sc.Folders = []string{Root, ws2Root}
			ws2In = true
		}
		sc.Knobs["ws2"] = ws2Root
	}
	open := map[string]bool{}
	faulted := false
	nops := 3 + r.Intn(14)
	if tier == "thorough" {
		nops = 3 + r.Intn(30)
	}
	for i := 0; i < nops; i++ {
		n := names[r.Intn(len(names))]
		autoDeliver := !anomalies || r.Intn(3) > 0
		if ws2 && r.Intn(5) == 0 {
			if r.Intn(2) == 0 {
				ws2In = !ws2In
				sc.Ops = append(sc.Ops, folderEvent(ws2In), Op{Kind: "check"})
			} else if ws2In {
				// the world changes a file of the second root while it is part of the workspace
				f := ws2Files[r.Intn(len(ws2Files))]
				sc.Ops = append(sc.Ops, Op{Kind: "fswrite", Path: f, Data: Bytes(c08Content(r, f))}, Op{Kind: "deliver"})
			}
			continue
		}
		switch k := r.Intn(22); {
		case k < 4: // the world writes a file
			if open[n] && r.Intn(3) > 0 {
				continue
			}
			sc.Ops = append(sc.Ops, Op{Kind: "fswrite", Path: n, Data: Bytes(c08Content(r, n))})
			exists[n] = true
			if r.Intn(4) == 0 {
				sc.Ops = append(sc.Ops, Op{Kind: "touchq", Path: names[r.Intn(len(names))]})
			}
			if autoDeliver {
				sc.Ops = append(sc.Ops, Op{Kind: "deliver"})
			}
		case k < 6: // the world deletes a file
			if !exists[n] || open[n] {
				continue
			}
			sc.Ops = append(sc.Ops, Op{Kind: "fsremove", Path: n})
			exists[n] = false
			if autoDeliver {
				sc.Ops = append(sc.Ops, Op{Kind: "deliver"})
			}
		case k < 9:
			if !exists[n] || open[n] {
				continue
			}
			sc.Ops = append(sc.Ops, Op{Kind: "open", Path: n})
			open[n] = true
		case k < 13: // edit (full text: variants) and possibly save
			if !open[n] {
				continue
			}
			text := c08Content(r, n)
			if r.Intn(3) == 0 {
				// bias: a clean buffer over whatever the disk holds
				text = fmt.Sprintf(c08Variants[0], strings.NewReplacer("/", "_", ".", "_").Replace(n))
			}
			sc.Ops = append(sc.Ops, Op{Kind: "change", Path: n, Edits: []Edit{{Full: true, Text: text}}})
			if r.Intn(4) == 0 && !faulted {
				// unsaved edit, then activity elsewhere, then a dirty-point check
				o := names[r.Intn(len(names))]
				if o != n && !open[o] {
					sc.Ops = append(sc.Ops, Op{Kind: "fswrite", Path: o, Data: Bytes(c08Content(r, o))})
					exists[o] = true
				}
				sc.Ops = append(sc.Ops, Op{Kind: "deliver"}, Op{Kind: "check"})
				continue
			}
			if r.Intn(3) > 0 {
				sc.Ops = append(sc.Ops, Op{Kind: "save", Path: n, NoEvt: r.Intn(4) == 0})
				exists[n] = true
				if autoDeliver {
					sc.Ops = append(sc.Ops, Op{Kind: "deliver"})
				}
			}
		case k < 14: // small incremental edit at the start of the buffer
			if !open[n] {
				continue
			}
			if r.Intn(4) == 0 {
				// select all + delete (a range edit that leaves an empty buffer), then look
				sc.Ops = append(sc.Ops, Op{Kind: "clear", Path: n}, Op{Kind: "deliver"}, Op{Kind: "check"})
				continue
			}
			if r.Intn(3) == 0 {
				// overtype: a range replaced by text of the same length (the buffer keeps its size),
				// then look at what the client holds
				col := r.Intn(4)
				sc.Ops = append(sc.Ops, Op{Kind: "change", Path: n, Edits: []Edit{{Start: Pos{0, col}, End: Pos{0, col + 1}, Text: []string{"(", "=", "x", " "}[r.Intn(4)]}}}, Op{Kind: "deliver"}, Op{Kind: "check"})
				continue
			}
			sc.Ops = append(sc.Ops, Op{Kind: "change", Path: n, Edits: []Edit{{Start: Pos{0, 0}, End: Pos{0, 0}, Text: []string{"local z = \n", "print(1)\n", "(", "-- c\n"}[r.Intn(4)]}}})
		case k < 16:
			if !open[n] {
				continue
			}
			sc.Ops = append(sc.Ops, Op{Kind: "save", Path: n})
			exists[n] = true
			if autoDeliver {
				sc.Ops = append(sc.Ops, Op{Kind: "deliver"})
			}
		case k < 18:
			if !open[n] {
				continue
			}
			sc.Ops = append(sc.Ops, Op{Kind: "close", Path: n})
			open[n] = false
		case k < 19: // a query in the middle of the history (completion cache etc. is state)
			if !open[n] {
				continue
			}
			m := []string{"completion", "hover", "definition", "references", "documentSymbol", "signatureHelp", "highlight"}[r.Intn(7)]
			sc.Ops = append(sc.Ops, Op{Kind: "req", Method: m, Path: n, Pos: &Pos{r.Intn(4), r.Intn(10)}})
		case k < 20 && anomalies:
			switch r.Intn(4) {
			case 0: // duplicate / spurious event
				sc.Ops = append(sc.Ops, Op{Kind: "event", Path: n})
			case 1: // batch delivery of whatever is queued, together with a no-op change of another file
				sc.Ops = append(sc.Ops, Op{Kind: "touchq", Path: names[r.Intn(len(names))]}, Op{Kind: "deliver", N: 1 + r.Intn(3)})
			case 2: // delete + re-create in one batch (atomic save by rename, checkout)
				if exists[n] && !open[n] {
					sc.Ops = append(sc.Ops, Op{Kind: "fsremove", Path: n}, Op{Kind: "fswrite", Path: n, Data: Bytes(c08Content(r, n))}, Op{Kind: "deliver"})
				}
			default: // write twice and delete before the first event is delivered
				if !open[n] {
					sc.Ops = append(sc.Ops, Op{Kind: "fswrite", Path: n, Data: Bytes(c08Content(r, n))}, Op{Kind: "fsremove", Path: n})
					exists[n] = false
				}
			}
		case k < 21 && faulty:
			kind := []string{"enoent", "eio", "torn", "eacces", "empty", "stale"}[r.Intn(6)]
			sc.Ops = append(sc.Ops, Op{Kind: "faults", Faults: []simfs.Fault{{Op: "ReadFile", Suffix: ".lua", Nth: 1 + r.Intn(2), Kind: kind, Arg: r.Intn(12)}}})
			faulted = true
		default: // intermediate checkpoint
			if !faulted {
				sc.Ops = append(sc.Ops, Op{Kind: "deliver"}, Op{Kind: "check"})
			}
		}
	}
	if r.Intn(6) == 0 && !faulted {
		// recipe: the saved text is broken, the buffer is repaired but not saved, then the workspace
		// is re-analysed because something else changes
		n := names[r.Intn(len(names))]
		o := names[r.Intn(len(names))]
		if !open[n] && n != o && !open[o] {
			tag := strings.NewReplacer("/", "_", ".", "_").Replace(n)
			sc.Ops = append(sc.Ops,
				Op{Kind: "fswrite", Path: n, Data: Bytes(fmt.Sprintf(c08Variants[1+r.Intn(2)], tag))}, Op{Kind: "deliver"},
				Op{Kind: "open", Path: n},
				Op{Kind: "change", Path: n, Edits: []Edit{{Full: true, Text: fmt.Sprintf(c08Variants[[]int{0, 3, 5}[r.Intn(3)]], tag)}}},
				Op{Kind: "fswrite", Path: o, Data: Bytes(c08Content(r, o))}, Op{Kind: "deliver"}, Op{Kind: "check"})
			open[n], exists[n], exists[o] = true, true, true
			if r.Intn(2) == 0 {
				// fix-then-break: back to the identical broken text, saved
				sc.Ops = append(sc.Ops, Op{Kind: "change", Path: n, Edits: []Edit{{Full: true, Text: fmt.Sprintf(c08Variants[1], tag)}}}, Op{Kind: "save", Path: n}, Op{Kind: "deliver"}, Op{Kind: "check"})
			}
		}
	}
	if r.Intn(8) == 0 && !faulted {
		// recipe: a file without any diagnostics is open with clean unsaved edits when the world
		// rewrites it on disk (another tool, a checkout) and the watcher reports it: the buffer's
		// file must go on showing the buffer's syntax errors (none) / the saved non-syntax diagnostics
		n := names[r.Intn(len(names))]
		if !open[n] {
			tag := strings.NewReplacer("/", "_", ".", "_").Replace(n)
			sc.Ops = append(sc.Ops,
				Op{Kind: "fswrite", Path: n, Data: Bytes(fmt.Sprintf(c08Variants[0], tag))}, Op{Kind: "deliver"},
				Op{Kind: "open", Path: n},
				Op{Kind: "change", Path: n, Edits: []Edit{{Start: Pos{0, 0}, End: Pos{0, 0}, Text: "print(1)\n"}}},
				Op{Kind: "fswrite", Path: n, Data: Bytes(c08Content(r, n))}, Op{Kind: "deliver"}, Op{Kind: "check"})
			open[n], exists[n] = true, true
		}
	}
	if r.Intn(8) == 0 && !faulted {
		// recipe: edits that are thrown away.  X defines globals and is edited (uses added, lines
		// shifted, a doc comment changed) but closed without saving; Y, still open, asks about the
		// symbols X defines — the answers must come from X's saved text again
		x, y := names[r.Intn(len(names))], names[r.Intn(len(names))]
		if x != y && !open[x] && !open[y] {
			sc.Ops = append(sc.Ops,
				Op{Kind: "fswrite", Path: x, Data: Bytes("-- the saved documentation\nfunction fA(a, b)\n  return a\nend\ngA = 1\n")}, Op{Kind: "deliver"},
				Op{Kind: "fswrite", Path: y, Data: Bytes("print(gA)\nfA(1, 2)\nlocal y = gA\nprint(y)\n")}, Op{Kind: "deliver"},
				Op{Kind: "open", Path: y}, Op{Kind: "open", Path: x},
				Op{Kind: "change", Path: x, Edits: []Edit{{Full: true, Text: "print(gA, gA)\n\n-- DISCARDED words\nfunction fA(a, b, c)\n  return gA\nend\ngA = 2\nprint(fA(1))\n"}}},
				Op{Kind: "close", Path: x}, Op{Kind: "check"})
			open[y], exists[x], exists[y] = true, true, true
		}
	}
	// make the end clean: stop faults, deliver everything, save or close dirty buffers, and (after
	// faults) let the world touch every file once more, which is what the next save would do.
	sc.Ops = append(sc.Ops, Op{Kind: "clearfaults"}, Op{Kind: "deliver"})
	for _, n := range names {
		if open[n] {
			if r.Intn(2) == 0 {
				sc.Ops = append(sc.Ops, Op{Kind: "save", Path: n})
			} else {
				sc.Ops = append(sc.Ops, Op{Kind: "close", Path: n})
			}
		}
	}
	sc.Ops = append(sc.Ops, Op{Kind: "deliver"})
	if faulted {
		for _, n := range names {
			sc.Ops = append(sc.Ops, Op{Kind: "touch", Path: n})
		}
		if ws2 && ws2In {
			for _, n := range ws2Files {
				sc.Ops = append(sc.Ops, Op{Kind: "touch", Path: n})
			}
		}
	}
	sc.Ops = append(sc.Ops, Op{Kind: "check", Arg: "final"})
	return sc
}

// battery builds the fixed query battery for a clean point.
func c08Battery(open []File, disk []File) []Op {
	// documentHighlight is deliberately throttled: it answers nothing for three seconds after an
	// edit (lsp_server.go isCanHighlight); the battery is asked once that window has passed
	ops := []Op{{Kind: "clock", N: 4000}}
	for _, f := range open {
		pos := identPositions(string(f.Data))
		if len(pos) > 4 {
			pos = pos[:4]
		}
		for i, p := range pos {
			p := p
			for _, m := range []string{"definition", "hover", "references", "highlight"} {
				ops = append(ops, Op{Kind: "req", Method: m, Path: f.Path, Pos: &p})
			}
			if i == 1 {
				ops = append(ops, Op{Kind: "req", Method: "rename", Path: f.Path, Pos: &p})
			}
		}
		for _, p := range callArgPositions(string(f.Data)) {
			p := p
			ops = append(ops, Op{Kind: "req", Method: "signatureHelp", Path: f.Path, Pos: &p})
		}
		ops = append(ops, Op{Kind: "req", Method: "documentSymbol", Path: f.Path})
		ops = append(ops, Op{Kind: "req", Method: "completion", Path: f.Path, Pos: &Pos{0, 1}})
		if ends := identEndPositions(string(f.Data)); len(ends) > 3 {
			ops = append(ops, Op{Kind: "req", Method: "completion", Path: f.Path, Pos: &ends[3]})
		}
		ops = append(ops, Op{Kind: "req", Method: "codeLens", Path: f.Path}, Op{Kind: "req", Method: "documentLink", Path: f.Path})
	}
	ops = append(ops, Op{Kind: "req", Method: "workspaceSymbol", Arg: "g"})
	ops = append(ops, Op{Kind: "req", Method: "workspaceSymbol", Arg: "f"})
	return ops
}

type c08Checkpoint struct {
	at       int
	final    bool
	disk     []File
	open     []File
	battery  []Op
	view     map[string][]string
	answers  []*Answer
	folders  []string // the client's workspace folders at the checkpoint
	plugin   bool
	dirty    string // dirty-point check: the single dirty document
	reverted map[string]bool
}

func viewToString(v map[string][]string) string {
	var uris []string
	for u, d := range v {
		if len(d) > 0 {
			uris = append(uris, u)
		}
	}
	sort.Strings(uris)
	var sb strings.Builder
	for _, u := range uris {
		sb.WriteString(u + "\n")
		for _, d := range v[u] {
			sb.WriteString("   " + d + "\n")
		}
	}
	return sb.String()
}

func opKinds(ops []Op) string {
	var ks []string
	for _, o := range ops {
		switch o.Kind {
		case "check", "deliver", "settle", "clearfaults":
		default:
			ks = append(ks, o.Kind)
		}
	}
	return strings.Join(ks, ",")
}

func checkC08(t *testing.T, sc *Scenario) *Verdict {
	v := &Verdict{OK: true}
	var cps []*c08Checkpoint
	faultsArmed := false
	hooks := Hooks{AfterOp: func(e *Engine, i int, op *Op) string {
		switch op.Kind {
		case "faults":
			faultsArmed = true
		case "check":
			if faultsArmed && op.Arg != "final" {
				return ""
			}
			dirty := e.DirtyDocs()
			if e.PendingEvents() > 0 {
				return ""
			}
			if len(e.External) > 0 {
				// the world changed the disk file under an open buffer: buffer and disk differ without
				// any unsaved *edit*; neither clause of the property speaks about that state — unless
				// the buffer does have unsaved edits of its own (and is the only such document): then
				// the second clause applies whatever the world wrote (the saved state the server knows
				// is the disk content the delivered events reported)
				only := len(e.External) == 1 && len(dirty) == 1 && e.External[dirty[0]] && e.ClientEdited(dirty[0])
				if !only {
					e.probe("c08.checkpoint-skipped-external-divergence")
					return ""
				}
				e.probe("c08.dirty-checkpoint-after-world-write")
			}
			cp := &c08Checkpoint{at: i, final: op.Arg == "final", disk: DiskFiles(), open: e.OpenDocs(), reverted: map[string]bool{}, folders: e.CurFolders(), plugin: sc.Plugin}
			for p, r := range e.Reverted {
				if r {
					cp.reverted[ViewURI(p)] = true
				}
			}
			if len(dirty) == 0 {
				e.probe("c08.clean-checkpoint")
				cp.battery = c08Battery(cp.open, cp.disk)
				cp.answers = e.Query(cp.battery)
				cp.view = e.ViewCopy()
				cps = append(cps, cp)
			} else if len(dirty) == 1 {
				e.probe("c08.dirty-checkpoint")
				cp.dirty = dirty[0]
				cp.view = e.ViewCopy()
				cps = append(cps, cp)
			}
		}
		return ""
	}}
	res := Run(t, sc, sc.Sched, hooks)
	v.absorb(res)
	replayForm := func() *Scenario {
		c := sc.Clone()
		c.Sched = withTape(sc.Sched, res.Tape)
		return c
	}
	if res.Outcome == OutInvalid {
		v.Invalid = true
		return v
	}
	if res.Outcome != OutOK {
		return v.violation("c08-run-"+res.Outcome, res.Outcome, res.Detail, replayForm())
	}
	mutations := 0
	for _, o := range sc.Ops {
		switch o.Kind {
		case "fswrite", "fsremove", "change", "save":
			mutations++
		}
	}
	for _, cp := range cps {
		if cp.dirty != "" {
			if msg := c08DirtyCheck(t, v, cp); msg != "" {
				return v.violation("c08-unsaved-buffer-view", "dirty:"+msg[:strings.Index(msg, "|")], fmt.Sprintf("at op#%d (history %s): %s", cp.at, opKinds(sc.Ops[:cp.at]), msg), replayForm())
			}
			continue
		}
		fresh := &Scenario{Prop: "C08", Files: cp.disk, InitOpts: sc.InitOpts, Folders: cp.folders, Plugin: sc.Plugin}
		for _, f := range cp.open {
			fresh.Ops = append(fresh.Ops, Op{Kind: "open", Path: f.Path})
		}
		fresh.Ops = append(fresh.Ops, cp.battery...)
		fr := Run(t, fresh, Canonical(), Hooks{})
		v.absorb(fr)
		if fr.Outcome != OutOK {
			return v.violation("c08-fresh-run-"+fr.Outcome, fr.Outcome, fr.Detail, replayForm())
		}
		types, d1 := diffViews(cp.view, fr.View)
		if len(types) > 0 || d1 != "" {
			tag := "missing-in-history"
			if strings.Contains(d1, "only/more in A") {
				tag = "stale-in-history"
			}
			sig := fmt.Sprintf("view diag-type:%s %s", strings.Join(types, ","), tag)
			if u := d1[:strings.Index(d1, ": only/more")]; cp.reverted[u] {
				// a specific, recognisable shape: the open buffer was brought back to the saved text by a
				// didChange (undo); the text has syntax errors; the client holds exactly those and lacks
				// only the non-syntax diagnostics a fresh server adds
				h, f := cp.view[u], fr.View[u]
				if len(h) > 0 && strings.Join(h, "\n") == strings.Join(onlyType1(f, true), "\n") && onlyDiffersIn(cp.view, fr.View, u) {
					sig = "undo-to-saved-text-with-syntax-errors: only syntax diagnostics shown"
				}
			}
			return v.violation("c08-differs-from-fresh", sig,
				fmt.Sprintf("at op#%d (history %s): A=history B=fresh: %s\n--- history view:\n%s--- fresh view:\n%s", cp.at, opKinds(sc.Ops[:cp.at]), d1, viewToString(cp.view), fr.ViewString()), replayForm())
		}
		fa := fr.Answers
		// the fresh run's answers start after initialize; keep only the battery's
		if len(fa) >= len(cp.answers) {
			fa = fa[len(fa)-len(cp.answers):]
		}
		kinds, d2 := diffAnswers(cp.answers, fa)
		if len(kinds) > 0 {
			sig := "answer:" + kinds[0]
			if g := sharedTableGlobal(sc); g != "" && strings.Contains(d2, "\"name\":\""+g+".") {
				// the differing entry is a member of a global table whose members are defined in
				// several files, one of which was deleted or rewritten during the history
				sig += " +member-of-global-table-defined-across-files"
			}
			return v.violation("c08-differs-from-fresh", sig, fmt.Sprintf("at op#%d (history %s): A=history B=fresh: %s", cp.at, opKinds(sc.Ops[:cp.at]), d2), replayForm())
		}
	}
	v.NonTrivial = mutations >= 2 && len(cps) > 0
	v.Shape = fmt.Sprintf("%s view=%x", opKinds(sc.Ops), hashString(res.ViewString()))
	return v
}

// onlyDiffersIn reports whether two views differ in no file other than u.
func onlyDiffersIn(a, b map[string][]string, u string) bool {
	for k, v := range a {
		if k != u && strings.Join(v, "\n") != strings.Join(b[k], "\n") {
			return false
		}
	}
	for k, v := range b {
		if k != u && strings.Join(v, "\n") != strings.Join(a[k], "\n") {
			return false
		}
	}
	return true
}

func onlyType1(ds []string, want bool) []string {
	var out []string
	for _, d := range ds {
		is1 := strings.Contains(d, "[Warn type:1]")
		if is1 == want {
			out = append(out, d)
		}
	}
	return out
}

// c08DirtyCheck: for a file with unsaved edits the view equals the type-1 diagnostics a fresh
// server reports for the buffer text if any, else the non-type-1 part of what a fresh server
// reports for the last saved text (= the disk file).  Returns "" or "tag|detail".
func c08DirtyCheck(t *testing.T, v *Verdict, cp *c08Checkpoint) string {
	var buf Bytes
	for _, f := range cp.open {
		if f.Path == cp.dirty {
			buf = f.Data
		}
	}
	onDisk := false
	for _, f := range cp.disk {
		if f.Path == cp.dirty {
			onDisk = true
		}
	}
	// fresh server on a disk where the file holds the buffer text
	var files []File
	for _, f := range cp.disk {
		if f.Path != cp.dirty {
			files = append(files, f)
		}
	}
	files = append(files, File{Path: cp.dirty, Data: buf})
	fb := Run(t, &Scenario{Prop: "C08", Files: files, Folders: cp.folders, Plugin: cp.plugin}, Canonical(), Hooks{})
	v.absorb(fb)
	uri := ViewURI(cp.dirty)
	want := onlyType1(fb.View[uri], true)
	tag := "buffer-syntax-errors"
	if len(want) == 0 {
		tag = "saved-non-syntax"
		if onDisk {
			fd := Run(t, &Scenario{Prop: "C08", Files: cp.disk, Folders: cp.folders, Plugin: cp.plugin}, Canonical(), Hooks{})
			v.absorb(fd)
			want = onlyType1(fd.View[uri], false)
		}
	}
	// compared as sets: the live analysis may report the same syntax error twice where the saved
	// analysis de-duplicates; that is the same set of diagnostics
	got := dedupe(cp.view[uri])
	want = dedupe(want)
	if strings.Join(got, "\n") != strings.Join(want, "\n") {
		return fmt.Sprintf("%s|%s: client holds %v, expected %v (buffer %q)", tag, cp.dirty, got, want, clip(string(buf), 120))
	}
	return ""
}

func dedupe(xs []string) []string {
	seen := map[string]bool{}
	var out []string
	for _, x := range xs {
		if !seen[x] {
			seen[x] = true
			out = append(out, x)
		}
	}
	sort.Strings(out)
	return out
}

var memberDefRe = regexp.MustCompile(`(?m)^function\s+([A-Za-z_][A-Za-z0-9_]*)[:.]`)

// sharedTableGlobal returns the name of a global table that gets members (function G:m / G.f)
// in at least two different files over the course of the scenario ("" if none).
func sharedTableGlobal(sc *Scenario) string {
	where := map[string]map[string]bool{}
	add := func(path string, text []byte) {
		for _, m := range memberDefRe.FindAllSubmatch(text, -1) {
			g := string(m[1])
			if where[g] == nil {
				where[g] = map[string]bool{}
			}
			where[g][path] = true
		}
	}
	for _, f := range sc.Files {
		add(f.Path, f.Data)
	}
	for _, o := range sc.Ops {
		if o.Kind == "fswrite" {
			add(o.Path, o.Data)
		}
		for _, ed := range o.Edits {
			add(o.Path, []byte(ed.Text))
		}
	}
	var names []string
	for g, ps := range where {
		if len(ps) >= 2 {
			names = append(names, g)
		}
	}
	sort.Strings(names)
	if len(names) > 0 {
		return names[0]
	}
	return ""
}
