package harness

import (
	"encoding/json"
	"fmt"
	"math/rand"
	"sort"
	"strings"
	"testing"
	"unicode/utf8"
)

// C02 — the server's copy of an open document always equals the client's text.
//
// Histories of didOpen / incremental and full didChange / didSave / didClose / re-open,
// interleaved with queries in flight and with watcher events for the same file; after every
// notification has completed the server's buffer is compared with the reference text model.

func init() { register(&Property{ID: "C02", Gen: genC02, Check: checkC02}) }

var c02Alphabets = map[string][]string{
	"ascii":  {"a", "b", "x", "1", " ", "=", "(", ")", "\"", "-", "local ", "print", "\t"},
	"bmp2":   {"é", "ß", "ж", "д", "a", " ", "=", "x"},
	"bmp3":   {"中", "文", "日", "本", "€", "a", " ", "x"},
	"astral": {"😀", "𝒳", "🚀", "𐍈", "a", " ", "x", "中"},
	// code points that text-processing code likes to special-case: the replacement character (a
	// valid 3-byte character that is also what decoders return for broken input), a byte-order
	// mark, Unicode line/paragraph separators and NEL (not line ends in LSP), NBSP, the last BMP
	// and the first and last astral code points
	"special": {"\uFFFD", "\uFEFF", "\u2028", "\u2029", "\u0085", "\u00A0", "\uFFFF", "\U00010000", "\U0010FFFF", "\u007F", "a", " ", "x"},
}

func randText(r *rand.Rand, classes []string, eols []string, lines int) string {
	var sb strings.Builder
	for i := 0; i < lines; i++ {
		n := r.Intn(12)
		for j := 0; j < n; j++ {
			al := c02Alphabets[classes[r.Intn(len(classes))]]
			sb.WriteString(al[r.Intn(len(al))])
		}
		if i < lines-1 || r.Intn(2) == 0 {
			sb.WriteString(eols[r.Intn(len(eols))])
		}
	}
	return sb.String()
}

// randPos draws a position that is valid for the model: an existing line and a character offset
// on a character boundary (never inside a surrogate pair).  beyond=true sometimes draws a
// character past the end of the line, which LSP defines to clamp.
func randPos(r *rand.Rand, doc []byte, beyond bool) Pos {
	nl := NumLines(doc)
	line := r.Intn(nl)
	if r.Intn(6) == 0 {
		line = nl - 1 // bias to the document end
	}
	starts, ends := lineStarts(doc)
	seg := doc[starts[line]:ends[line]]
	// candidate boundaries in UTF-16 units
	var bounds []int
	u := 0
	bounds = append(bounds, 0)
	for len(seg) > 0 {
		rn, sz := utf8.DecodeRune(seg)
		if rn >= 0x10000 {
			u += 2
		} else {
			u++
		}
		bounds = append(bounds, u)
		seg = seg[sz:]
	}
	c := bounds[r.Intn(len(bounds))]
	if r.Intn(4) == 0 {
		c = bounds[len(bounds)-1]
	}
	if beyond && r.Intn(12) == 0 {
		c = bounds[len(bounds)-1] + 1 + r.Intn(5)
	}
	return Pos{line, c}
}

func lessPos(a, b Pos) bool { return a.Line < b.Line || (a.Line == b.Line && a.Char < b.Char) }

func genC02(seed int64, tier string) *Scenario {
	r := rand.New(rand.NewSource(seed))
	sc := &Scenario{Prop: "C02", Seed: seed, Knobs: map[string]interface{}{}, Sched: Canonical()}
	// character classes and line endings of this run (swarm: subsets)
	classSets := [][]string{{"ascii"}, {"ascii", "bmp2"}, {"ascii", "bmp3"}, {"ascii", "astral"}, {"ascii", "bmp2", "bmp3", "astral"}, {"astral"}, {"ascii", "special"}, {"special", "astral"}}
	eolSets := [][]string{{"\n"}, {"\r\n"}, {"\r"}, {"\n", "\r\n"}, {"\n", "\r\n", "\r"}, {"\n", "\r"}}
	ci, ei := r.Intn(len(classSets)), r.Intn(len(eolSets))
	if r.Intn(3) == 0 {
		ci, ei = 0, 0 // plain ASCII/LF stays well covered
	}
	classes, eols := classSets[ci], eolSets[ei]
	beyond := r.Intn(3) == 0
	sc.Knobs["classes"], sc.Knobs["eols"], sc.Knobs["beyond"] = classes, eols, beyond
	// some clients address "up to the end of the document" as a line past the last one
	pastEnd := r.Intn(4) == 0
	if pastEnd {
		sc.Knobs["past_end"] = true
	}
	if r.Intn(4) > 0 {
		sc.Sched = RandomSched(r)
	}
	docs := []string{"a.lua", "sub/b.lua"}
	if r.Intn(4) == 0 {
		// names an editor has to percent-encode in the document's URI (the model client encodes like
		// VS Code; the server writes its own URIs unencoded)
		docs[1] = []string{"sub dir/b c.lua", "mod+x/a+b.lua", "ünï/文件.lua", "sub/b~(1).lua"}[r.Intn(4)]
		sc.Knobs["named"] = docs[1]
	}
	if r.Intn(2) == 0 {
		docs = docs[:1]
	}
	if r.Intn(2) == 0 {
		// the client names its plugin path (as the real one does): documents can then be outside
		// the workspace, and one of the edited documents is
		sc.Plugin = true
		sc.Knobs["plugin"] = true
		if r.Intn(2) == 0 {
			docs = append(docs, "/outside/o.lua")
		}
	}
	model := map[string][]byte{}
	earlier := map[string][]string{} // texts each document has had (candidates for "back to ...")
	for _, d := range docs {
		lines := r.Intn(6)
		if r.Intn(8) == 0 {
			lines = 0
		}
		text := randText(r, classes, eols, lines)
		sc.Files = append(sc.Files, File{Path: d, Data: Bytes(text)})
	}
	sc.Files = append(sc.Files, File{Path: "other.lua", Data: Bytes("gother = 1\n")})
	open := map[string]bool{}
	nops := 5 + r.Intn(36)
	for i := 0; i < nops; i++ {
		d := docs[r.Intn(len(docs))]
		if !open[d] {
			op := Op{Kind: "open", Path: d}
			if r.Intn(2) == 0 {
				t := randText(r, classes, eols, r.Intn(5))
				op.Text = &t
				model[d] = []byte(t)
			} else {
				for _, f := range sc.Files {
					if f.Path == d {
						model[d] = append([]byte(nil), f.Data...)
					}
				}
			}
			sc.Ops = append(sc.Ops, op)
			open[d] = true
			continue
		}
		if r.Intn(12) == 0 && len(earlier[d]) > 0 {
			// back to a text the document had before (undo all the way, restore from history): the
			// server must not mistake it for "back to the saved text" unless it is
			old := earlier[d][r.Intn(len(earlier[d]))]
			model[d] = []byte(old)
			sc.Ops = append(sc.Ops, Op{Kind: "change", Path: d, Edits: []Edit{{Full: true, Text: old}}})
			continue
		}
		if len(earlier[d]) < 6 {
			earlier[d] = append(earlier[d], string(model[d]))
		}
		switch k := r.Intn(23); {
		case k == 19: // select all + delete
			sc.Ops = append(sc.Ops, Op{Kind: "clear", Path: d})
			model[d] = []byte{}
		case k == 20: // the file of the open document is deleted on disk; the editor keeps the buffer
			sc.Ops = append(sc.Ops, Op{Kind: "fsremove", Path: d}, Op{Kind: "deliver"})
		case k == 21: // a settings change rebuilds the server's project while documents are open
			// sometimes the new settings exclude an open document from analysis, a later change
			// includes it again: the editor still has it open and keeps sending edits
			ign := []string{"", "", `"a.lua"`, `"sub/"`, `"a.lua","sub/b.lua"`, `"nomatch/"`}[r.Intn(6)]
			cfg := fmt.Sprintf(`{"luahelper":{"base":{"ReferenceMaxNum":%d,"IgnoreFileOrDir":[%s]},"Warn":{"AllEnable":true,"CheckSyntax":true,"CheckNoDefine":%v}}}`, 10+r.Intn(100), ign, r.Intn(2) == 0)
			sc.Ops = append(sc.Ops, Op{Kind: "config", Params: json.RawMessage(cfg)})
		case k == 22: // save under a name that the disk does not have yet / any more
			sc.Ops = append(sc.Ops, Op{Kind: "save", Path: d})
		case k < 11: // incremental change, possibly a batch
			nb := 1
			if r.Intn(4) == 0 {
				nb = 2 + r.Intn(3)
			}
			var eds []Edit
			cur := model[d]
			for b := 0; b < nb; b++ {
				p1, p2 := randPos(r, cur, beyond), randPos(r, cur, beyond)
				if lessPos(p2, p1) {
					p1, p2 = p2, p1
				}
				if pastEnd && r.Intn(5) == 0 {
					p2 = Pos{NumLines(cur) + r.Intn(2), r.Intn(3)}
					if r.Intn(4) == 0 {
						p1 = Pos{NumLines(cur) + r.Intn(2), r.Intn(3)}
						if lessPos(p2, p1) {
							p1, p2 = p2, p1
						}
					}
				}
				var ed Edit
				switch kind := r.Intn(3); {
				case nb > 1 && r.Intn(6) == 0: // a full replacement anywhere inside a batch
					ed = Edit{Full: true, Text: randText(r, classes, eols, r.Intn(4))}
				case kind == 0: // insert
					ed = Edit{Start: p1, End: p1, Text: randText(r, classes, eols, 1+r.Intn(2))}
				case kind == 1: // delete
					ed = Edit{Start: p1, End: p2, Text: ""}
				default:
					ed = Edit{Start: p1, End: p2, Text: randText(r, classes, eols, 1+r.Intn(2))}
				}
				n2, err := Apply(cur, ed)
				if err != nil {
					continue
				}
				cur = n2
				eds = append(eds, ed)
			}
			if len(eds) > 0 {
				model[d] = cur
				sc.Ops = append(sc.Ops, Op{Kind: "change", Path: d, Edits: eds})
			}
		case k < 13: // full replacement
			t := randText(r, classes, eols, r.Intn(5))
			model[d] = []byte(t)
			sc.Ops = append(sc.Ops, Op{Kind: "change", Path: d, Edits: []Edit{{Full: true, Text: t}}})
		case k < 14:
			sc.Ops = append(sc.Ops, Op{Kind: "save", Path: d, NoEvt: r.Intn(2) == 0})
		case k < 15:
			sc.Ops = append(sc.Ops, Op{Kind: "close", Path: d})
			open[d] = false
		case k < 16: // the disk copy changes behind the open buffer
			sc.Ops = append(sc.Ops, Op{Kind: "fswrite", Path: d, Data: Bytes(randText(r, classes, eols, r.Intn(4)))}, Op{Kind: "deliver"})
		case k < 18: // a query in flight while the next notification arrives
			p := randPos(r, model[d], false)
			m := []string{"hover", "definition", "completion", "references", "highlight", "documentSymbol"}[r.Intn(6)]
			sc.Ops = append(sc.Ops, Op{Kind: "req", Method: m, Path: d, Pos: &p, Async: true}, Op{Kind: "step", N: r.Intn(6)})
		default:
			sc.Ops = append(sc.Ops, Op{Kind: "deliver"})
		}
	}
	if r.Intn(8) == 0 {
		// recipe: a window in which the settings exclude an open document; it is edited and
		// (sometimes) saved inside the window, included again, and then edited to a text it had
		// before the window or to a new one. All texts parse, so the analysed-text oracle applies.
		d, pat := "a.lua", `"a.lua"`
		if len(docs) > 1 && docs[1] == "sub/b.lua" && r.Intn(2) == 0 {
			d, pat = "sub/b.lua", `"sub/"`
		}
		good := []string{"local r1 = 1\nfunction fa() end\n", "function fb() return 2 end\n", "gq = {}\nfunction gq.m() end\n", ""}
		r.Shuffle(len(good), func(i, j int) { good[i], good[j] = good[j], good[i] })
		full := func(t string) Op { return Op{Kind: "change", Path: d, Edits: []Edit{{Full: true, Text: t}}} }
		cfg := func(ign string) Op {
			return Op{Kind: "config", Params: json.RawMessage(fmt.Sprintf(`{"luahelper":{"base":{"IgnoreFileOrDir":[%s]},"Warn":{"AllEnable":true,"CheckSyntax":true}}}`, ign))}
		}
		if !open[d] {
			sc.Ops = append(sc.Ops, Op{Kind: "open", Path: d})
		}
		sc.Ops = append(sc.Ops, full(good[0]))
		if r.Intn(3) > 0 {
			sc.Ops = append(sc.Ops, Op{Kind: "save", Path: d, NoEvt: r.Intn(2) == 0})
		}
		if docs[len(docs)-1] == "/outside/o.lua" && r.Intn(2) == 0 {
			// a saved document outside the workspace folders stays open across the settings changes
			o := docs[len(docs)-1]
			if !open[o] {
				sc.Ops = append(sc.Ops, Op{Kind: "open", Path: o})
			}
			sc.Ops = append(sc.Ops, Op{Kind: "change", Path: o, Edits: []Edit{{Full: true, Text: good[3]}}}, Op{Kind: "save", Path: o, NoEvt: r.Intn(2) == 0})
		}
		sc.Ops = append(sc.Ops, cfg(pat), full(good[1]))
		if r.Intn(3) > 0 {
			sc.Ops = append(sc.Ops, Op{Kind: "save", Path: d, NoEvt: r.Intn(2) == 0})
		}
		if r.Intn(3) == 0 {
			sc.Ops = append(sc.Ops, full(good[2]))
		}
		sc.Ops = append(sc.Ops, cfg(""))
		if r.Intn(4) > 0 {
			sc.Ops = append(sc.Ops, full(good[r.Intn(3)]))
		}
		if r.Intn(3) == 0 {
			sc.Ops = append(sc.Ops, Op{Kind: "deliver"})
		}
	}
	if docs[len(docs)-1] == "/outside/o.lua" && r.Intn(3) == 0 && len(sc.Ops) > 2 {
		// the folder of the outside document becomes a workspace folder while the document is open
		// (and maybe edited), and sometimes stops being one again
		folder := func(add bool) Op {
			ev := map[string]interface{}{"added": []interface{}{}, "removed": []interface{}{}}
			k := "removed"
			if add {
				k = "added"
			}
			ev[k] = []interface{}{map[string]interface{}{"uri": "file:///outside", "name": "outside"}}
			b, _ := json.Marshal(ev)
			return Op{Kind: "folders", Params: b}
		}
		at := 1 + r.Intn(len(sc.Ops)-1)
		ops := append([]Op{}, sc.Ops[:at]...)
		ops = append(ops, folder(true))
		rest := sc.Ops[at:]
		if r.Intn(3) == 0 && len(rest) > 1 {
			cut := 1 + r.Intn(len(rest)-1)
			ops = append(ops, rest[:cut]...)
			ops = append(ops, folder(false))
			rest = rest[cut:]
		}
		sc.Ops = append(ops, rest...)
		sc.Knobs["folder_ops"] = true
	}
	if r.Intn(5) == 0 {
		// the same document spelled differently from message to message (percent-encoded or not,
		// separators below the root as %5C or as backslashes): LSP asks servers to be robust against
		// differing spellings of one URI, and this server's conversion accepts all of these
		for i := range sc.Ops {
			switch sc.Ops[i].Kind {
			case "open", "change", "save", "close":
				sc.Ops[i].Spell = r.Intn(4)
			}
		}
		sc.Knobs["spellings"] = true
	}
	sc.Ops = append(sc.Ops, Op{Kind: "settle"})
	return sc
}

// docFeatures tags what is special about a document (used in signatures so that distinct
// causes stay distinct).
func docFeatures(b []byte) string {
	var tags []string
	astral, cr := false, false
	for i := 0; i < len(b); {
		r, sz := utf8.DecodeRune(b[i:])
		if r >= 0x10000 {
			astral = true
		}
		if r == '\r' && (i+1 >= len(b) || b[i+1] != '\n') {
			cr = true
		}
		i += sz
	}
	if astral {
		tags = append(tags, "astral")
	}
	if cr {
		tags = append(tags, "lone-CR")
	}
	if len(tags) == 0 {
		return "plain"
	}
	return strings.Join(tags, "+")
}

func checkC02(t *testing.T, sc *Scenario) *Verdict {
	v := &Verdict{OK: true}
	applied := 0
	var failSig string
	prev := map[string][]byte{}
	// at the end: what the server ANALYSES for each open document (seen through its document
	// symbols) is compared with a fresh server that is given exactly the client's text
	type endDoc struct {
		path, text, symbols string
	}
	var endDocs []endDoc
	var endDisk []File
	var endFolders []string
	lastCfg := -1
	lastWin := 0
	announced := map[string]bool{} // documents the server said it lost track of (until replaced or re-opened)
	hooks := Hooks{AfterOp: func(e *Engine, i int, op *Op) string {
		winBefore := lastWin
		lastWin = e.WindowMessages()
		if op.Kind == "config" {
			lastCfg = i
		}
		if op.Kind == "open" || op.Kind == "close" || (op.Kind == "change" && len(op.Edits) > 0 && op.Edits[len(op.Edits)-1].Full) {
			delete(announced, op.Path)
		}
		if op.Kind == "settle" && i == len(sc.Ops)-1 && simRunnable() == 0 {
			var paths []string
			for rel := range e.Open {
				paths = append(paths, rel)
			}
			sort.Strings(paths)
			for _, rel := range paths {
				if announced[rel] {
					continue
				}
				if e.External[rel] {
					// the world rewrote or removed the file under the open buffer and the watcher said
					// so: the server then re-analyses the disk text; that situation is outside the
					// notification sequences C02 quantifies over (and C08 leaves it out as well)
					continue
				}
				ans := e.Query([]Op{{Kind: "req", Method: "documentSymbol", Path: rel}})
				if len(ans) == 1 && ans[0].Done {
					endDocs = append(endDocs, endDoc{rel, string(e.Open[rel]), ans[0].Result + "|" + ans[0].Err})
				}
			}
			endDisk = DiskFiles()
			endFolders = e.CurFolders()
		}
		if op.Async || op.Kind == "step" {
			return ""
		}
		if simRunnable() > 0 {
			return "" // a handler is still in flight; compare at the next quiescent point
		}
		if op.Kind == "change" {
			applied++
		}
		for rel, want := range e.Open {
			if announced[rel] {
				continue
			}
			got, ok := e.DocText(rel)
			if !ok {
				failSig = "open-document-missing"
				return fmt.Sprintf("after op#%d %s: server has no buffer for open document %s", i, op.Kind, rel)
			}
			if string(got) != string(want) {
				before := prev[rel]
				if op.Kind == "change" && op.Path == rel && editsPastDocEnd(before, op.Edits) && lastWin > winBefore {
					// a range naming a line that does not exist, which this server chose not to apply,
					// and it said so to the user: not silent. Its text is unknown from here on
					announced[rel] = true
					continue
				}
				all := append([]byte(nil), before...)
				for _, ed := range op.Edits {
					all = append(all, ed.Text...)
				}
				feat := docFeatures(all)
				past := ""
				if op.Kind == "change" && editsPastLineEnd(before, op.Edits) {
					past = "+past-line-end"
				}
				if op.Kind == "change" && editsPastDocEnd(before, op.Edits) {
					past += "+past-document-end"
				}
				failSig = "buffer-mismatch after " + op.Kind + " doc:" + feat + past
				return fmt.Sprintf("after op#%d %s %s: server buffer %q != client text %q (text before the op: %q)", i, op.Kind, rel, clip(string(got), 200), clip(string(want), 200), clip(string(before), 200))
			}
		}
		for rel, want := range e.Open {
			prev[rel] = append([]byte(nil), want...)
		}
		return ""
	}}
	res := Run(t, sc, sc.Sched, hooks)
	v.absorb(res)
	switch res.Outcome {
	case OutOK:
	case "oracle":
		c := sc.Clone()
		c.Sched = withTape(sc.Sched, res.Tape)
		return v.violation("c02-buffer-mismatch", failSig, res.Detail, c)
	case OutInvalid:
		v.Invalid = true
		return v
	default:
		c := sc.Clone()
		c.Sched = withTape(sc.Sched, res.Tape)
		return v.violation("c02-run-"+res.Outcome, res.Outcome, res.Detail, c)
	}
	if len(endDocs) > 0 {
		fresh := &Scenario{Prop: "C02", Files: endDisk, Plugin: sc.Plugin, FirstCfg: true, Folders: endFolders}
		if lastCfg >= 0 {
			fresh.Ops = append(fresh.Ops, sc.Ops[lastCfg])
		}
		onDisk := map[string]bool{}
		for _, f := range endDisk {
			onDisk[f.Path] = true
		}
		for _, d := range endDocs {
			o := Op{Kind: "open", Path: d.path}
			if !onDisk[d.path] {
				empty := ""
				o.Text = &empty
			}
			fresh.Ops = append(fresh.Ops, o, Op{Kind: "change", Path: d.path, Edits: []Edit{{Full: true, Text: d.text + "\n"}}},
				Op{Kind: "change", Path: d.path, Edits: []Edit{{Full: true, Text: d.text}}},
				Op{Kind: "req", Method: "documentSymbol", Path: d.path})
		}
		fr := Run(t, fresh, Canonical(), Hooks{})
		v.absorb(fr)
		if fr.Outcome == OutOK {
			k := 0
			for _, a := range fr.Answers {
				if a.Method != "textDocument/documentSymbol" || k >= len(endDocs) {
					continue
				}
				d := endDocs[k]
				k++
				broken := false
				for _, dg := range fr.View[ViewURI(d.path)] {
					if strings.Contains(dg, "[Warn type:1]") {
						broken = true // a buffer that does not parse is analysed from the last good state, which is history
					}
				}
				for _, dg := range res.View[ViewURI(d.path)] {
					if strings.Contains(dg, "[Warn type:1]") {
						broken = true
					}
				}
				if broken || ignoredByConfig(fresh, d.path) {
					// a document the final settings exclude from analysis is not analysed at all
					continue
				}
				if got := a.Result + "|" + a.Err; got != d.symbols {
					c := sc.Clone()
					c.Sched = withTape(sc.Sched, res.Tape)
					return v.violation("c02-analysed-text-differs", "document symbols of the open document differ from those of its text",
						fmt.Sprintf("%s: the client holds %q; the server answers documentSymbol with %s, a fresh server given that text answers %s (fresh view %v, history view %v)", d.path, clip(d.text, 200), clip(d.symbols, 400), clip(got, 400), fr.View[ViewURI(d.path)], res.View[ViewURI(d.path)]), c)
				}
			}
		}
	}
	v.NonTrivial = applied >= 3
	final := ""
	var openNames []string
	for f := range prev {
		openNames = append(openNames, f)
	}
	sort.Strings(openNames)
	for _, f := range openNames {
		final += string(prev[f]) + "\x00"
	}
	v.Shape = fmt.Sprintf("edits=%d final=%x", applied, hashString(final))
	return v
}

// ignoredByConfig reports whether the settings sent in the (only) config op of sc may exclude
// path from analysis: any IgnoreFileOrDir entry that occurs in the path counts.
func ignoredByConfig(sc *Scenario, path string) bool {
	for _, op := range sc.Ops {
		if op.Kind != "config" {
			continue
		}
		var p struct {
			Luahelper struct {
				Base struct {
					IgnoreFileOrDir []string
				} `json:"base"`
			} `json:"luahelper"`
		}
		if json.Unmarshal(op.Params, &p) != nil {
			return true
		}
		for _, pat := range p.Luahelper.Base.IgnoreFileOrDir {
			if pat != "" && strings.Contains("/"+path, strings.TrimSuffix(pat, "/")) {
				return true
			}
		}
	}
	return false
}

// editsPastDocEnd reports whether any edit of the batch names a line past the last line of the
// document it applies to.
func editsPastDocEnd(doc []byte, eds []Edit) bool {
	cur := doc
	for _, ed := range eds {
		if !ed.Full && (ed.Start.Line >= NumLines(cur) || ed.End.Line >= NumLines(cur)) {
			return true
		}
		n, err := Apply(cur, ed)
		if err != nil {
			return false
		}
		cur = n
	}
	return false
}

// editsPastLineEnd reports whether any edit of the batch addresses a character past the end of
// its line (legal in LSP: clamps).
func editsPastLineEnd(doc []byte, eds []Edit) bool {
	cur := doc
	for _, ed := range eds {
		if !ed.Full {
			for _, p := range []Pos{ed.Start, ed.End} {
				if p.Line < NumLines(cur) && p.Char > LineLen16(cur, p.Line) {
					return true
				}
			}
		}
		n, err := Apply(cur, ed)
		if err != nil {
			return false
		}
		cur = n
	}
	return false
}
