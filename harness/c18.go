package harness

import (
	"encoding/json"
	"fmt"
	"math/rand"
	"sort"
	"strings"
	"testing"

	"simrt/simfs"
)

// C18 — module paths resolve as documented, consistently across features, and the answer
// follows file creation / deletion events.

func init() { register(&Property{ID: "C18", Gen: genC18, Check: checkC18}) }

type c18Ref struct {
	Line   int    `json:"line"`
	Col    int    `json:"col"` // a column inside the string literal
	Func   string `json:"func"`
	Module string `json:"module"`
	// position of the member access v<i>.common that shows which file the analysis loaded
	MemLine int `json:"mem_line"`
	MemCol  int `json:"mem_col"`
}

func genC18(seed int64, tier string) *Scenario {
	r := rand.New(rand.NewSource(seed))
	sc := &Scenario{Prop: "C18", Seed: seed, Knobs: map[string]interface{}{}, Sched: Canonical()}
	if r.Intn(4) == 0 {
		sc.Sched = RandomSched(r)
	}
	// some directories are named like modules: a module name then also occurs earlier in the path of
	// a deeper candidate
	dirs := []string{"", "a/", "a/b/", "c/", "lib/", "lib/x/", "util/", "util/m/", "conf/lib/"}
	names := []string{"m", "n", "util", "conf"}
	sep := "."
	if r.Intn(3) == 0 {
		sep = "/"
		opts := AllOn()
		opts["RequirePathSeparator"] = "/"
		sc.InitOpts = opts
	}
	sc.Knobs["sep"] = sep
	sc.Plugin = r.Intn(3) == 0
	exists := map[string]bool{}
	add := func(p, body string) {
		if !exists[p] {
			exists[p] = true
			sc.Files = append(sc.Files, File{Path: p, Data: Bytes(body)})
		}
	}
	nmods := 2 + r.Intn(7)
	var all []string
	for i := 0; i < nmods; i++ {
		d := dirs[r.Intn(len(dirs))]
		n := names[r.Intn(len(names))]
		tag := strings.NewReplacer("/", "_").Replace(d + n)
		switch r.Intn(8) {
		case 0: // package directory with init.lua
			add(d+n+"/init.lua", fmt.Sprintf("local M = {}\nM.tag_%s_init = 1\nM.common = 1\nreturn M\n", tag))
			all = append(all, d+n)
		case 1: // native module
			add(d+n+".so", "\x7fELF")
			all = append(all, d+n)
		default:
			add(d+n+".lua", fmt.Sprintf("local M = {}\nM.tag_%s = 1\ng_%s = 1\nM.common = 1\nreturn M\n", tag, tag))
			all = append(all, d+n)
		}
	}
	// the requiring file, in the root or in a sub-directory
	mainPath := []string{"main.lua", "main.lua", "app/main.lua", "a/main.lua"}[r.Intn(4)]
	var refs []c18Ref
	var body strings.Builder
	nreq := 2 + r.Intn(6)
	for i := 0; i < nreq; i++ {
		var mod string
		if len(all) > 0 && r.Intn(5) > 0 {
			full := all[r.Intn(len(all))]
			parts := strings.Split(full, "/")
			k := r.Intn(len(parts)) // drop a prefix of the path: partial module paths
			mod = strings.Join(parts[k:], "/")
		} else {
			mod = dirs[r.Intn(len(dirs))] + names[r.Intn(len(names))]
		}
		fn := "require"
		lit := strings.ReplaceAll(mod, "/", sep)
		if sep == "/" && r.Intn(2) == 0 {
			lit = strings.ReplaceAll(mod, "/", ".") // a dotted string keeps meaning directories whatever the configured separator
		}
		if r.Intn(6) == 0 {
			fn = "dofile"
			lit = mod + ".lua"
			if r.Intn(3) == 0 {
				// no suffix: the string names no file by itself; the analysis matches it loosely (m ->
				// some m.lua), and often it names a directory (a package directory, the directory part
				// of a module path)
				lit = mod
				if i := strings.LastIndex(mod, "/"); i > 0 && r.Intn(2) == 0 {
					lit = mod[:i]
				}
			}
		}
		line := fmt.Sprintf("local v%d = %s(\"%s\")\n", i, fn, lit)
		col := strings.Index(line, "\"") + 1 + r.Intn(len(lit))
		refs = append(refs, c18Ref{Line: i, Col: col, Func: fn, Module: lit})
		body.WriteString(line)
	}
	for i := 0; i < nreq; i++ {
		// a member every module defines: go-to-definition on it leads into the file the analysis
		// actually loaded for v<i>
		line := fmt.Sprintf("print(v%d.common)\n", i)
		refs[i].MemLine, refs[i].MemCol = nreq+i, strings.Index(line, "common")+2
		body.WriteString(line)
	}
	add(mainPath, body.String())
	sort.Slice(sc.Files, func(i, j int) bool { return sc.Files[i].Path < sc.Files[j].Path })
	sc.Knobs["main"] = mainPath
	sc.Knobs["refs"] = refs
	sc.Ops = append(sc.Ops, Op{Kind: "open", Path: mainPath}, Op{Kind: "check"})
	savedMain := r.Intn(2) == 0
	if savedMain {
		// the requiring file has been saved once (its content is then cached by the server)
		sc.Ops = append(sc.Ops, Op{Kind: "save", Path: mainPath}, Op{Kind: "deliver"})
	}
	// create / delete events between the probes
	nev := r.Intn(4)
	edits := 0
	for i := 0; i < nev; i++ {
		if r.Intn(3) == 0 {
			// an unsaved edit of the requirer between two analysis runs (a comment appended at the
			// end: the positions of the module strings stay put); what was looked up while analysing
			// the buffer must not leak into the handling of the next file event
			edits++
			end := Pos{2 * nreq, 0}
			sc.Ops = append(sc.Ops, Op{Kind: "change", Path: mainPath, Edits: []Edit{{Start: end, End: end, Text: fmt.Sprintf("-- edit %d\n", edits)}}})
			if r.Intn(2) == 0 {
				sc.Ops = append(sc.Ops, Op{Kind: "check"})
			}
		}
		var cands []string
		for p := range exists {
			if p != mainPath && strings.HasSuffix(p, ".lua") {
				cands = append(cands, p) // the client watches Lua files only; other deletions are never reported
			}
		}
		sort.Strings(cands)
		if len(cands) > 0 && r.Intn(4) == 0 {
			// delete + re-create of the same file reported in one watcher batch (git checkout, atomic
			// save by rename): the file exists at the end
			p := cands[r.Intn(len(cands))]
			sc.Ops = append(sc.Ops, Op{Kind: "fsremove", Path: p}, Op{Kind: "fswrite", Path: p, Data: Bytes("local M = {}\nM.recreated = 1\nM.common = 1\nreturn M\n")}, Op{Kind: "deliver"}, Op{Kind: "check"})
			continue
		}
		if len(cands) > 0 && r.Intn(2) == 0 {
			p := cands[r.Intn(len(cands))]
			delete(exists, p)
			editedModule := r.Intn(3) == 0
			if editedModule {
				// the module itself is open with an unsaved edit when it is deleted on disk
				sc.Ops = append(sc.Ops, Op{Kind: "open", Path: p}, Op{Kind: "change", Path: p, Edits: []Edit{{Start: Pos{0, 0}, End: Pos{0, 0}, Text: "-- edited\n"}}})
			}
			sc.Ops = append(sc.Ops, Op{Kind: "fsremove", Path: p})
			if editedModule {
				sc.Ops = append(sc.Ops, Op{Kind: "deliver"}, Op{Kind: "close", Path: p})
			}
			if r.Intn(3) == 0 {
				// one watcher batch: the module event together with a no-op change of the requirer
				sc.Ops = append(sc.Ops, Op{Kind: "touchq", Path: mainPath})
			}
			sc.Ops = append(sc.Ops, Op{Kind: "deliver"})
			if r.Intn(3) == 0 {
				// the deletion is reported a second time (watchers coalesce and repeat): an event for
				// a path the server no longer knows must not disturb same-named files elsewhere
				sc.Ops = append(sc.Ops, Op{Kind: "event", Path: p})
			}
		} else {
			d := dirs[r.Intn(len(dirs))]
			n := names[r.Intn(len(names))]
			p := d + n + ".lua"
			if r.Intn(5) == 0 {
				p = d + n + "/init.lua"
			}
			if exists[p] {
				continue
			}
			exists[p] = true
			if r.Intn(3) == 0 {
				sc.Ops = append(sc.Ops, Op{Kind: "touchq", Path: mainPath})
			}
			sc.Ops = append(sc.Ops, Op{Kind: "fswrite", Path: p, Data: Bytes("local M = {}\nM.common = 1\nreturn M\n")}, Op{Kind: "deliver"})
		}
		sc.Ops = append(sc.Ops, Op{Kind: "check"})
	}
	if r.Intn(3) == 0 {
		// a transient read fault while the server handles a change event for a module that still
		// exists (editor saving non-atomically, flaky mount); once the fault is gone and the file is
		// touched again everything must be as on a fresh start
		var mods []string
		for p := range exists {
			if p != mainPath && strings.HasSuffix(p, ".lua") {
				mods = append(mods, p)
			}
		}
		sort.Strings(mods)
		if len(mods) > 0 {
			m := mods[r.Intn(len(mods))]
			kind := []string{"eio", "eacces", "enoent", "torn"}[r.Intn(4)]
			sc.Ops = append(sc.Ops,
				Op{Kind: "faults", Faults: []simfs.Fault{{Op: "ReadFile", Suffix: m, Nth: 1, Kind: kind, Arg: 3}}},
				Op{Kind: "fswrite", Path: m, Data: Bytes("local M = {}\nM.changed = 1\nM.common = 1\nreturn M\n")}, Op{Kind: "deliver"},
				Op{Kind: "clearfaults"}, Op{Kind: "touch", Path: m}, Op{Kind: "check"})
			sc.Knobs["fault"] = kind
		}
	}
	return sc
}

type c18Probe struct {
	at     int
	disk   []File
	view   []string // diagnostics of the main file
	defs   []string // definition target per ref ("" = none)
	hovers []string // hover text per ref
	loaded []string // file the analysis loaded per ref: definition target of <var>.common ("" = none)
}

func knobRefs(sc *Scenario) (string, []c18Ref) {
	var refs []c18Ref
	b, _ := json.Marshal(sc.Knobs["refs"])
	json.Unmarshal(b, &refs)
	m, _ := sc.Knobs["main"].(string)
	return m, refs
}

func defTarget(result string) string {
	var locs []struct {
		URI string `json:"uri"`
	}
	if json.Unmarshal([]byte(result), &locs) != nil || len(locs) == 0 {
		return ""
	}
	return strings.TrimPrefix(locs[0].URI, "file://"+Root+"/")
}

// hoverResolved: a hover on a module string that resolves shows "lua file : <path>"; one that
// does not resolve falls back to an ordinary (unknown variable) hover or nothing.
func hoverResolved(result string) bool {
	var h struct {
		Contents struct {
			Value string `json:"value"`
		} `json:"contents"`
	}
	json.Unmarshal([]byte(result), &h)
	return strings.Contains(h.Contents.Value, "lua file :")
}

// c18Candidates is the reference resolver: the set of workspace files the documented mapping
// allows for a module string (separator to '/', name.lua, then name/init.lua; a partial path
// matches any file whose path ends with it).  so=true when a native module of that name exists.
func c18Candidates(disk []File, ref c18Ref, sep string) (cands map[string]bool, so bool) {
	cands = map[string]bool{}
	mod := ref.Module
	if ref.Func == "dofile" {
		for _, f := range disk {
			if f.Path == mod || strings.HasSuffix(f.Path, "/"+mod) {
				cands[f.Path] = true
			}
			// written without the suffix: name.lua
			if !strings.HasSuffix(mod, ".lua") && (f.Path == mod+".lua" || strings.HasSuffix(f.Path, "/"+mod+".lua")) {
				cands[f.Path] = true
			}
		}
		return
	}
	mod = strings.ReplaceAll(mod, ".", "/")
	for _, f := range disk {
		for _, suf := range []string{".lua", "/init.lua"} {
			if f.Path == mod+suf || strings.HasSuffix(f.Path, "/"+mod+suf) {
				cands[f.Path] = true
			}
		}
		if f.Path == mod+".so" || strings.HasSuffix(f.Path, "/"+mod+".so") {
			so = true
		}
	}
	return
}

func checkC18(t *testing.T, sc *Scenario) *Verdict {
	v := &Verdict{OK: true}
	mainPath, refs := knobRefs(sc)
	sep, _ := sc.Knobs["sep"].(string)
	if mainPath == "" || len(refs) == 0 {
		v.Invalid = true
		return v
	}
	noMember := map[int]bool{}
	// the probes are positions in the requiring file: a scenario whose file no longer has the
	// module strings where the knobs say (a minimisation candidate that cut the text) asks about
	// nothing and is not a scenario of this property
	for _, f := range sc.Files {
		if f.Path != mainPath {
			continue
		}
		lines := strings.Split(string(f.Data), "\n")
		for _, rf := range refs {
			if rf.Line >= len(lines) || !strings.Contains(lines[rf.Line], "\""+rf.Module+"\"") {
				v.Invalid = true
				return v
			}
			if rf.MemLine >= len(lines) || !strings.Contains(lines[rf.MemLine], ".common") {
				noMember[rf.Line] = true // the member line was cut: the loaded-file comparison has nothing to ask
			}
		}
	}
	battery := func() []Op {
		var ops []Op
		for _, rf := range refs {
			p := Pos{rf.Line, rf.Col}
			mp := Pos{rf.MemLine, rf.MemCol}
			ops = append(ops, Op{Kind: "req", Method: "definition", Path: mainPath, Pos: &p}, Op{Kind: "req", Method: "hover", Path: mainPath, Pos: &p},
				Op{Kind: "req", Method: "definition", Path: mainPath, Pos: &mp})
		}
		return ops
	}
	var probes []*c18Probe
	hooks := Hooks{AfterOp: func(e *Engine, i int, op *Op) string {
		if op.Kind != "check" || e.PendingEvents() > 0 {
			return ""
		}
		if _, open := e.Open[mainPath]; !open {
			return ""
		}
		ans := e.Query(battery())
		if len(ans) != 3*len(refs) {
			return ""
		}
		pr := &c18Probe{at: i, disk: DiskFiles(), view: append([]string(nil), e.Result().View[ViewURI(mainPath)]...)}
		for k := range refs {
			pr.defs = append(pr.defs, defTarget(ans[3*k].Result))
			pr.hovers = append(pr.hovers, ans[3*k+1].Result)
			pr.loaded = append(pr.loaded, defTarget(ans[3*k+2].Result))
		}
		probes = append(probes, pr)
		return ""
	}}
	res := Run(t, sc, sc.Sched, hooks)
	v.absorb(res)
	replayForm := func() *Scenario {
		c := sc.Clone()
		c.Sched = withTape(sc.Sched, res.Tape)
		return c
	}
	if res.Outcome == OutInvalid {
		v.Invalid = true
		return v
	}
	if res.Outcome != OutOK {
		return v.violation("c18-run-"+res.Outcome, res.Outcome, res.Detail, replayForm())
	}
	if len(probes) == 0 {
		v.Invalid = true
		return v
	}
	bad := func(class, sig, detail string) *Verdict { return v.violation(class, sig, detail, replayForm()) }
	for pi, pr := range probes {
		phase := "initial"
		if pi > 0 {
			phase = "after-event"
		}
		for k, rf := range refs {
			type6 := false
			for _, d := range pr.view {
				if strings.Contains(d, "[Warn type:6]") && strings.Contains(d, fmt.Sprintf(`"start":{"character":`)) && strings.Contains(d, fmt.Sprintf(`"line":%d}`, rf.Line)) {
					type6 = true
				}
			}
			def := pr.defs[k]
			hov := hoverResolved(pr.hovers[k])
			cands, so := c18Candidates(pr.disk, rf, sep)
			desc := fmt.Sprintf("%s(%q) in %s at probe op#%d: type6=%v definition=%q hover-resolved=%v candidates=%v so=%v", rf.Func, rf.Module, mainPath, pr.at, type6, def, hov, keys(cands), so)
			if so {
				// documented special case: a native module of that name is tolerated (no analysis, no
				// diagnostic) while definition may still find a same-named Lua file.  Only the case
				// where the .so sits exactly at the module path (from the workspace root) is
				// unambiguous; there the "no false alarm" half is checked.  Everything else about
				// native modules is left unchecked.
				exact := false
				for _, f := range pr.disk {
					if f.Path == strings.ReplaceAll(rf.Module, ".", "/")+".so" {
						exact = true
					}
				}
				if exact && type6 {
					return bad("c18-so-module-flagged", phase+" native module reported missing", desc)
				}
				continue
			}
			// reference resolver, unambiguous cases only
			if len(cands) == 0 {
				if !type6 {
					return bad("c18-missing-file-not-reported", phase+" no candidate but no type-6", desc)
				}
				if def != "" {
					return bad("c18-definition-to-unrelated-file", phase+" no candidate but definition answers", desc)
				}
			} else {
				if type6 {
					return bad("c18-existing-file-reported-missing", phase+" candidate exists but type-6 shown", desc)
				}
				if def != "" && !cands[def] {
					return bad("c18-definition-outside-candidates", phase+" definition target not a documented candidate", desc)
				}
			}
			// three-way agreement
			if type6 != (def == "") {
				tag := "type6-but-definition"
				if !type6 {
					tag = "resolved-but-no-definition"
				}
				if len(cands) > 0 && onlyInit(cands) {
					tag += " +init.lua-module"
				}
				return bad("c18-features-disagree", phase+" "+tag, desc)
			}
			if hov != (def != "") {
				return bad("c18-features-disagree", phase+" hover and definition disagree on whether the module resolves", desc)
			}
			// definition on the string leads to the file the analysis actually loaded
			if rf.Func == "require" && def != "" && pr.loaded[k] != def && !noMember[rf.Line] {
				tag := "definition on the string and the loaded file differ"
				if pr.loaded[k] == "" {
					tag = "module resolves but its member is unknown to the analysis"
				}
				return bad("c18-features-disagree", phase+" "+tag, desc+fmt.Sprintf(" loaded=%q", pr.loaded[k]))
			}
		}
	}
	// equals a fresh server after the events
	last := probes[len(probes)-1]
	fresh := &Scenario{Prop: "C18", Files: last.disk, InitOpts: sc.InitOpts, Plugin: sc.Plugin, Ops: append([]Op{{Kind: "open", Path: mainPath}}, battery()...)}
	fr := Run(t, fresh, Canonical(), Hooks{})
	v.absorb(fr)
	if fr.Outcome != OutOK {
		return bad("c18-fresh-run-"+fr.Outcome, fr.Outcome, fr.Detail)
	}
	fv := fr.View[ViewURI(mainPath)]
	if strings.Join(fv, "\n") != strings.Join(last.view, "\n") {
		return bad("c18-differs-from-fresh", "main-file diagnostics after events", fmt.Sprintf("history: %v\nfresh:   %v", last.view, fv))
	}
	fa := fr.Answers[len(fr.Answers)-3*len(refs):]
	for k := range refs {
		if defTarget(fa[3*k].Result) != last.defs[k] {
			return bad("c18-differs-from-fresh", "definition after events", fmt.Sprintf("%s(%q): history %q fresh %q", refs[k].Func, refs[k].Module, last.defs[k], defTarget(fa[3*k].Result)))
		}
		if fa[3*k+1].Result != last.hovers[k] {
			return bad("c18-differs-from-fresh", "hover after events", fmt.Sprintf("%s(%q): history %q fresh %q", refs[k].Func, refs[k].Module, clip(last.hovers[k], 300), clip(fa[3*k+1].Result, 300)))
		}
		if defTarget(fa[3*k+2].Result) != last.loaded[k] {
			return bad("c18-differs-from-fresh", "loaded file after events", fmt.Sprintf("%s(%q): history %q fresh %q", refs[k].Func, refs[k].Module, last.loaded[k], defTarget(fa[3*k+2].Result)))
		}
	}
	v.NonTrivial = len(refs) >= 2
	v.Shape = fmt.Sprintf("files=%d refs=%d probes=%d %x", len(sc.Files), len(refs), len(probes), hashString(fmt.Sprint(last.defs, last.view)))
	return v
}

func keys(m map[string]bool) []string {
	var out []string
	for k := range m {
		out = append(out, k)
	}
	sort.Strings(out)
	return out
}

func onlyInit(m map[string]bool) bool {
	for k := range m {
		if !strings.HasSuffix(k, "/init.lua") {
			return false
		}
	}
	return true
}
