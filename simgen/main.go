// simgen: type-directed source-to-source instrumentation of a scratch copy of luahelper-lsp.
//
// usage: simgen <dir-of-copy> [stats.json]
//
// Every rewrite is semantics-preserving when the simulator is off (simrt.On == false).
// Exit status 2 = the copy cannot be instrumented (never a property violation).
package main

import (
	"encoding/json"
	"fmt"
	"go/ast"
	"go/token"
	"go/types"
	"os"
	"path/filepath"
	"sort"
	"strings"

	"golang.org/x/tools/go/packages"
)

const (
	kClose = iota // insertion that closes a wrapper: emitted first at a position, inner before outer
	kReplace
	kOpen // insertion that opens a wrapper: emitted last at a position, outer before inner
)

type edit struct {
	start, end int
	text       string
	kind       int
	seq        int
}

type fileCtx struct {
	p     *packages.Package
	f     *ast.File
	src   []byte
	edits []edit
	seq   int
	name  string
}

func (c *fileCtx) off(pos token.Pos) int { return c.p.Fset.Position(pos).Offset }
func (c *fileCtx) text(n ast.Node) string {
	return string(c.src[c.off(n.Pos()):c.off(n.End())])
}
func (c *fileCtx) site(n ast.Node) string {
	ps := c.p.Fset.Position(n.Pos())
	return fmt.Sprintf("%s:%d", filepath.Base(ps.Filename), ps.Line)
}
func (c *fileCtx) open(pos token.Pos, s string) {
	c.seq++
	c.edits = append(c.edits, edit{c.off(pos), c.off(pos), s, kOpen, c.seq})
}
func (c *fileCtx) close(pos token.Pos, s string) {
	c.seq++
	c.edits = append(c.edits, edit{c.off(pos), c.off(pos), s, kClose, c.seq})
}
func (c *fileCtx) replace(from, to token.Pos, s string) {
	c.seq++
	c.edits = append(c.edits, edit{c.off(from), c.off(to), s, kReplace, c.seq})
}

var stats = map[string]int{}
var sites = map[string][]string{}
var mapKeyTypes = map[string]int{}

func fail(format string, a ...interface{}) {
	fmt.Fprintf(os.Stderr, "simgen: "+format+"\n", a...)
	os.Exit(2)
}

func note(kind, site string) {
	stats[kind]++
	sites[kind] = append(sites[kind], site)
}

// fsRewrites maps qualified standard-library functions to their simulated replacement.
var fsRewrites = map[string]string{
	"io/ioutil.ReadFile":    "simfs.ReadFile",
	"os.ReadFile":           "simfs.ReadFile",
	"io/ioutil.ReadDir":     "simfs.ReadDir",
	"os.Stat":               "simfs.Stat",
	"os.Lstat":              "simfs.Lstat",
	"os.Readlink":           "simfs.Readlink",
	"os.ReadDir":            "simfs.ReadDirEntries",
	"path/filepath.Walk":    "simfs.Walk",
	"path/filepath.WalkDir": "simfs.WalkDir",
}

// fsForbidden are file-system calls the simulated disk does not model; meeting one outside the
// log package means the copy would touch the real disk, so the build is refused.
var fsForbidden = map[string]bool{
	"os.Open": true, "os.OpenFile": true, "os.Create": true, "os.WriteFile": true, "io/ioutil.WriteFile": true,
	"os.Remove": true, "os.RemoveAll": true, "os.Mkdir": true, "os.MkdirAll": true, "os.Rename": true,
	"path/filepath.Glob":         true,
	"path/filepath.EvalSymlinks": true, "io/ioutil.TempFile": true, "io/ioutil.TempDir": true, "os.Chdir": true,
	"os.Symlink": true, "os.Truncate": true,
}

var fnSeq int
var fnNames []string

func main() {
	if len(os.Args) < 2 {
		fail("usage: simgen <dir> [stats.json]")
	}
	dir := os.Args[1]
	cfg := &packages.Config{Mode: packages.NeedName | packages.NeedFiles | packages.NeedSyntax | packages.NeedTypes | packages.NeedTypesInfo | packages.NeedImports | packages.NeedDeps, Dir: dir}
	pkgs, err := packages.Load(cfg, "./...")
	if err != nil {
		fail("load: %v", err)
	}
	for _, p := range pkgs {
		if len(p.Errors) > 0 {
			fail("package %s does not type-check: %v", p.PkgPath, p.Errors)
		}
	}

	// handler methods registered through handler.New(x.Method) anywhere in the module
	handlers := map[types.Object]bool{}
	for _, p := range pkgs {
		for _, f := range p.Syntax {
			ast.Inspect(f, func(n ast.Node) bool {
				call, ok := n.(*ast.CallExpr)
				if !ok || len(call.Args) != 1 {
					return true
				}
				sel, ok := call.Fun.(*ast.SelectorExpr)
				if !ok || sel.Sel.Name != "New" {
					return true
				}
				id, ok := sel.X.(*ast.Ident)
				if !ok {
					return true
				}
				pn, ok := p.TypesInfo.Uses[id].(*types.PkgName)
				if !ok || !strings.HasSuffix(pn.Imported().Path(), "jrpc2/handler") {
					return true
				}
				if msel, ok := call.Args[0].(*ast.SelectorExpr); ok {
					if obj := p.TypesInfo.Uses[msel.Sel]; obj != nil {
						handlers[obj] = true
					}
				}
				return true
			})
		}
	}

	for _, p := range pkgs {
		if strings.HasPrefix(p.PkgPath, "simrt") {
			continue
		}
		for _, f := range p.Syntax {
			fname := p.Fset.Position(f.Pos()).Filename
			if strings.HasSuffix(fname, "_test.go") {
				continue
			}
			src, err := os.ReadFile(fname)
			if err != nil {
				fail("%v", err)
			}
			c := &fileCtx{p: p, f: f, src: src, name: fname}
			instrument(c, handlers)
			if len(c.edits) == 0 {
				continue
			}
			out := c.apply()
			if err := os.WriteFile(fname, out, 0644); err != nil {
				fail("%v", err)
			}
		}
	}
	if stats["handler"] == 0 {
		fail("no handler.New(...) registrations found: the dispatcher table moved; handler-entry yields cannot be placed")
	}
	rep := map[string]interface{}{"counts": stats, "sites": sites, "map_key_types": mapKeyTypes, "fn_points": fnNames}
	b, _ := json.MarshalIndent(rep, "", " ")
	if len(os.Args) > 2 {
		os.WriteFile(os.Args[2], b, 0644)
	}
	keys := []string{}
	for k := range stats {
		keys = append(keys, k)
	}
	sort.Strings(keys)
	for _, k := range keys {
		fmt.Printf("%s=%d ", k, stats[k])
	}
	fmt.Println()
}

func (c *fileCtx) qual(other *types.Package) string {
	if other == c.p.Types {
		return ""
	}
	for _, imp := range c.f.Imports {
		path := strings.Trim(imp.Path.Value, "\"")
		if path == other.Path() {
			if imp.Name != nil {
				return imp.Name.Name
			}
			return other.Name()
		}
	}
	fail("%s: type from package %s needed in a go-statement wrapper but the file does not import it", c.name, other.Path())
	return ""
}

func isBlank(e ast.Expr) bool {
	if e == nil {
		return true
	}
	id, ok := e.(*ast.Ident)
	return ok && id.Name == "_"
}

func instrument(c *fileCtx, handlers map[types.Object]bool) {
	p, f := c.p, c.f
	inLog := strings.HasSuffix(p.PkgPath, "/log")

	// two-value receives: v, ok := <-ch
	twoValue := map[*ast.UnaryExpr]bool{}
	ast.Inspect(f, func(n ast.Node) bool {
		switch x := n.(type) {
		case *ast.AssignStmt:
			if len(x.Lhs) == 2 && len(x.Rhs) == 1 {
				if u, ok := x.Rhs[0].(*ast.UnaryExpr); ok && u.Op == token.ARROW {
					twoValue[u] = true
				}
			}
		case *ast.ValueSpec:
			if len(x.Names) == 2 && len(x.Values) == 1 {
				if u, ok := x.Values[0].(*ast.UnaryExpr); ok && u.Op == token.ARROW {
					twoValue[u] = true
				}
			}
		}
		return true
	})
	// receives that are select communication clauses are left alone
	inSelect := map[ast.Node]bool{}
	ast.Inspect(f, func(n ast.Node) bool {
		if cc, ok := n.(*ast.CommClause); ok && cc.Comm != nil {
			ast.Inspect(cc.Comm, func(m ast.Node) bool {
				switch m.(type) {
				case *ast.UnaryExpr, *ast.SendStmt:
					inSelect[m] = true
				}
				return true
			})
		}
		return true
	})

	ast.Inspect(f, func(n ast.Node) bool {
		switch x := n.(type) {
		case *ast.SelectStmt:
			note("select-stmt", c.site(x))
			c.open(x.Pos(), fmt.Sprintf("simrt.Yield(%q); ", "selectstmt@"+c.site(x)))
			for _, cl := range x.Body.List {
				cc := cl.(*ast.CommClause)
				c.open(cc.Colon+1, fmt.Sprintf(" simrt.Yield(%q); ", "selected@"+c.site(cc)))
			}
		case *ast.RangeStmt:
			t := p.TypesInfo.TypeOf(x.X)
			if t == nil {
				return true
			}
			if _, ok := t.Underlying().(*types.Chan); ok {
				note("range-chan", c.site(x))
				c.open(x.Body.Lbrace+1, fmt.Sprintf(" simrt.Yield(%q); ", "ranged@"+c.site(x)))
				return true
			}
			mt, ok := t.Underlying().(*types.Map)
			if !ok {
				return true
			}
			note("range-map", c.site(x))
			mapKeyTypes[mt.Key().String()]++
			xs := c.text(x.X)
			kB, vB := isBlank(x.Key), isBlank(x.Value)
			st := fmt.Sprintf("%q", c.site(x))
			var hdr string
			if x.Tok == token.DEFINE {
				switch {
				case !kB && !vB:
					hdr = fmt.Sprintf("for %s, %s, simit := simrt.RangeKV(%s, %s); simit.NextKV(&%s, &%s); ", c.text(x.Key), c.text(x.Value), xs, st, c.text(x.Key), c.text(x.Value))
				case !kB && vB:
					hdr = fmt.Sprintf("for %s, simit := simrt.RangeK(%s, %s); simit.NextK(&%s); ", c.text(x.Key), xs, st, c.text(x.Key))
				case kB && !vB:
					hdr = fmt.Sprintf("for %s, simit := simrt.RangeV(%s, %s); simit.NextV(&%s); ", c.text(x.Value), xs, st, c.text(x.Value))
				default:
					hdr = fmt.Sprintf("for simit := simrt.Range0(%s, %s); simit.Next0(); ", xs, st)
				}
			} else {
				switch {
				case !kB && !vB:
					hdr = fmt.Sprintf("for simit := simrt.Range0(%s, %s); simit.NextKV(&%s, &%s); ", xs, st, c.text(x.Key), c.text(x.Value))
				case !kB && vB:
					hdr = fmt.Sprintf("for simit := simrt.Range0(%s, %s); simit.NextK(&%s); ", xs, st, c.text(x.Key))
				case kB && !vB:
					hdr = fmt.Sprintf("for simit := simrt.Range0(%s, %s); simit.NextV(&%s); ", xs, st, c.text(x.Value))
				default:
					hdr = fmt.Sprintf("for simit := simrt.Range0(%s, %s); simit.Next0(); ", xs, st)
				}
			}
			c.replace(x.For, x.Body.Lbrace, hdr)
		case *ast.GoStmt:
			note("go", c.site(x))
			call := x.Call
			if fl, ok := call.Fun.(*ast.FuncLit); ok {
				c.open(fl.Body.Lbrace+1, fmt.Sprintf(" simrt.Enter(%q); defer simrt.Exit(); ", c.site(x)))
			} else {
				sig, _ := p.TypesInfo.TypeOf(call.Fun).Underlying().(*types.Signature)
				if sig == nil {
					fail("%s: go statement with a non-function callee", c.site(x))
				}
				var params, args []string
				for i := range call.Args {
					var pt types.Type
					if sig.Variadic() && i >= sig.Params().Len()-1 {
						if call.Ellipsis.IsValid() {
							pt = sig.Params().At(sig.Params().Len() - 1).Type()
						} else {
							pt = sig.Params().At(sig.Params().Len() - 1).Type().(*types.Slice).Elem()
						}
					} else {
						pt = sig.Params().At(i).Type()
					}
					params = append(params, fmt.Sprintf("simp%d %s", i, types.TypeString(pt, c.qual)))
					a := fmt.Sprintf("simp%d", i)
					if call.Ellipsis.IsValid() && i == len(call.Args)-1 {
						a += "..."
					}
					args = append(args, a)
				}
				fun := ""
				recvArg := ""
				if sel, ok := call.Fun.(*ast.SelectorExpr); ok {
					if s := p.TypesInfo.Selections[sel]; s != nil && s.Kind() == types.MethodVal {
						params = append([]string{fmt.Sprintf("simr %s", types.TypeString(p.TypesInfo.TypeOf(sel.X), c.qual))}, params...)
						recvArg = c.text(sel.X)
						fun = "simr." + sel.Sel.Name
					}
				}
				if fun == "" {
					// plain function (or function-typed variable): pass the callee as a parameter as well
					params = append([]string{fmt.Sprintf("simf %s", types.TypeString(p.TypesInfo.TypeOf(call.Fun), c.qual))}, params...)
					recvArg = c.text(call.Fun)
					fun = "simf"
				}
				wrapper := fmt.Sprintf("func(%s) { simrt.Enter(%q); defer simrt.Exit(); %s(%s) }", strings.Join(params, ", "), c.site(x), fun, strings.Join(args, ", "))
				c.replace(call.Fun.Pos(), call.Fun.End(), wrapper)
				lead := recvArg
				if len(call.Args) > 0 {
					lead += ", "
				}
				c.open(call.Lparen+1, lead)
				if call.Ellipsis.IsValid() {
					c.replace(call.Ellipsis, call.Ellipsis+3, "")
				}
			}
			c.close(x.End(), fmt.Sprintf("; simrt.Yield(%q)", "spawned@"+c.site(x)))
		case *ast.SendStmt:
			if inSelect[x] {
				return true
			}
			note("send", c.site(x))
			c.open(x.Pos(), "simrt.Send(")
			c.replace(x.Chan.End(), x.Value.Pos(), ", ")
			c.close(x.End(), fmt.Sprintf(", %q)", c.site(x)))
		case *ast.UnaryExpr:
			if x.Op == token.ARROW && !inSelect[x] {
				note("recv", c.site(x))
				fn := "simrt.Recv("
				if twoValue[x] {
					fn = "simrt.Recv2("
				}
				c.replace(x.Pos(), x.X.Pos(), fn)
				c.close(x.End(), fmt.Sprintf(", %q)", c.site(x)))
			}
		case *ast.CallExpr:
			if id, ok := x.Fun.(*ast.Ident); ok && id.Name == "recover" && len(x.Args) == 0 {
				if _, isBuiltin := p.TypesInfo.Uses[id].(*types.Builtin); isBuiltin {
					note("recover", c.site(x))
					c.open(x.Pos(), "simrt.Recovered(")
					c.close(x.End(), ")")
				}
				return true
			}
			// capacity knobs: a constructor called NewLRUCache with a literal capacity gets the capacity
			// from the simulator (so that the eviction path runs with few documents)
			if len(x.Args) == 1 {
				name := ""
				switch f := x.Fun.(type) {
				case *ast.Ident:
					name = f.Name
				case *ast.SelectorExpr:
					name = f.Sel.Name
				}
				if lit, ok := x.Args[0].(*ast.BasicLit); ok && name == "NewLRUCache" && lit.Kind == token.INT {
					note("knob", c.site(x)+" lru="+lit.Value)
					c.replace(lit.Pos(), lit.End(), "simrt.Knob(\"lru\", "+lit.Value+")")
				}
			}
			sel, ok := x.Fun.(*ast.SelectorExpr)
			if !ok {
				return true
			}
			if id, ok := sel.X.(*ast.Ident); ok {
				if pn, ok := p.TypesInfo.Uses[id].(*types.PkgName); ok {
					full := pn.Imported().Path() + "." + sel.Sel.Name
					switch full {
					case "reflect.Select":
						note("select", c.site(x))
						c.replace(x.Fun.Pos(), x.Fun.End(), "simrt.Select")
					case "runtime.NumCPU":
						note("numcpu", c.site(x))
						c.replace(x.Fun.Pos(), x.Fun.End(), "simrt.NumCPU")
					case "time.Sleep":
						note("sleep", c.site(x))
						c.replace(x.Fun.Pos(), x.Fun.End(), "simrt.Sleep")
					case "net.Dial":
						note("dial", c.site(x))
						c.replace(x.Fun.Pos(), x.Fun.End(), "simrt.Dial")
					default:
						if r, ok := fsRewrites[full]; ok {
							note("fs", c.site(x)+" "+full)
							c.replace(x.Fun.Pos(), x.Fun.End(), r)
						} else if fsForbidden[full] && !inLog {
							fail("%s: file-system call %s is not modelled by the simulated disk", c.site(x), full)
						}
					}
					return true
				}
			}
			t := p.TypesInfo.TypeOf(sel.X)
			if t == nil {
				return true
			}
			ts := t.String()
			isMu := ts == "sync.Mutex" || ts == "*sync.Mutex"
			isRW := ts == "sync.RWMutex" || ts == "*sync.RWMutex"
			amp := "&"
			if strings.HasPrefix(ts, "*") {
				amp = ""
			}
			if isMu || isRW {
				switch sel.Sel.Name {
				case "Lock":
					note("lock", c.site(x))
					c.open(x.Pos(), "simrt.Lock("+amp)
					c.replace(sel.X.End(), x.End(), fmt.Sprintf(", %q)", c.site(x)))
				case "Unlock":
					note("unlock", c.site(x))
					c.open(x.Pos(), "simrt.Unlock("+amp)
					c.replace(sel.X.End(), x.End(), ")")
				case "RLock":
					note("lock", c.site(x))
					c.open(x.Pos(), "simrt.RLock("+amp)
					c.replace(sel.X.End(), x.End(), fmt.Sprintf(", %q)", c.site(x)))
				case "RUnlock":
					note("unlock", c.site(x))
					c.open(x.Pos(), "simrt.RUnlock("+amp)
					c.replace(sel.X.End(), x.End(), ")")
				}
			}
			if (ts == "sync.WaitGroup" || ts == "*sync.WaitGroup") && sel.Sel.Name == "Wait" {
				note("wgwait", c.site(x))
				c.open(x.Pos(), "simrt.WaitGroupWait("+amp)
				c.replace(sel.X.End(), x.End(), fmt.Sprintf(", %q)", c.site(x)))
			}
		}
		return true
	})

	// handler-entry yields
	for _, d := range f.Decls {
		fd, ok := d.(*ast.FuncDecl)
		if !ok || fd.Body == nil {
			continue
		}
		obj := p.TypesInfo.Defs[fd.Name]
		if obj == nil || !handlers[obj] {
			// an optional scheduling point at the entry of every other function of the server
			// (switched on per run for a small pseudo-random subset of functions, see simrt.FnPoint):
			// windows between two synchronisation operations become explorable.  Not in the logger
			// and not in the protocol package (its methods run on the dispatcher's own goroutines).
			if pp := p.PkgPath; !strings.HasSuffix(pp, "/log") && !strings.HasSuffix(pp, "/protocol") && fd.Name.Name != "init" && !strings.HasPrefix(fd.Name.Name, "Sim") {
				fnSeq++
				fnNames = append(fnNames, fmt.Sprintf("%d=%s.%s", fnSeq, p.Name, fd.Name.Name))
				stats["fnpoint"]++
				c.open(fd.Body.Lbrace+1, fmt.Sprintf(" simrt.FnPoint(%d); ", fnSeq))
			}
			continue
		}
		key := `""`
		if ps := fd.Type.Params.List; len(ps) > 0 && len(ps[0].Names) == 1 && ps[0].Names[0].Name != "_" {
			if tt := p.TypesInfo.TypeOf(ps[0].Type); tt != nil && tt.String() == "context.Context" {
				key = "simrt.ReqKey(" + ps[0].Names[0].Name + ")"
			}
		}
		note("handler", fd.Name.Name)
		c.open(fd.Body.Lbrace+1, fmt.Sprintf(" simrt.YieldKey(%q, %s); ", "enter:"+fd.Name.Name, key))
	}
}

func (c *fileCtx) apply() []byte {
	es := c.edits
	sort.SliceStable(es, func(i, j int) bool {
		a, b := es[i], es[j]
		if a.start != b.start {
			return a.start < b.start
		}
		if a.kind != b.kind {
			return a.kind < b.kind
		}
		if a.kind == kClose {
			return a.seq > b.seq
		}
		return a.seq < b.seq
	})
	var out []byte
	pos := 0
	for _, e := range es {
		if e.start < pos {
			fail("%s: overlapping rewrites near offset %d (a construct nested inside a rewritten header); simplify the expression", c.name, e.start)
		}
		out = append(out, c.src[pos:e.start]...)
		out = append(out, e.text...)
		pos = e.end
	}
	out = append(out, c.src[pos:]...)

	// imports right after the package clause, and keep-alives for imports that may have become unused
	pe := c.off(c.f.Name.End())
	keep := "\nvar _ = simfs.ReadFile\nvar _ = simrt.Yield\n"
	for _, imp := range c.f.Imports {
		path := strings.Trim(imp.Path.Value, "\"")
		name := ""
		if imp.Name != nil {
			name = imp.Name.Name
			if name == "_" || name == "." {
				continue
			}
		}
		ka := map[string]string{"runtime": "NumCPU", "reflect": "Select", "net": "Dial", "time": "Sleep", "io/ioutil": "ReadFile", "os": "Stat", "sync": "NewCond", "path/filepath": "Join"}
		if fn, ok := ka[path]; ok {
			if name == "" {
				name = filepath.Base(path)
			}
			keep += fmt.Sprintf("var _ = %s.%s\n", name, fn)
		}
	}
	res := append([]byte{}, out[:pe]...)
	res = append(res, []byte("; import \"simrt\"; import \"simrt/simfs\"")...)
	res = append(res, out[pe:]...)
	res = append(res, []byte(keep)...)
	return res
}
