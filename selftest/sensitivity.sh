#!/bin/bash
# sensitivity.sh [budget-seconds] [pattern]: every mutant under selftest/mutants (named <PROP>-*.diff) and
# seeded/<id>/patch.diff is applied to a scratch worktree of /repo (never to /repo itself) and the
# property's check must report a VIOLATION within the budget.
set -u
V="$(cd "$(dirname "$0")/.." && pwd)"
BUDGET="${1:-40}"
PAT="${2:-}"
export PATH=/opt/veriftools/go1.26.8/bin:$PATH
pass=0; fail=0
run_one() {
  local prop="$1" patch="$2" name="$3"
  local wt; wt=$(mktemp -d /tmp/mutwt-XXXX); rmdir "$wt"
  git -C /repo worktree add -q --detach "$wt" HEAD || { echo "worktree failed"; return; }
  if ! git -C "$wt" apply "$patch" 2>/dev/null; then
    echo "SKIP $name: patch does not apply to HEAD"; git -C /repo worktree remove --force "$wt"; return
  fi
  local out; out=$(mktemp -d /tmp/mutout-XXXX)
  # the sweep only asks whether the check finds anything: stop exploring at the first violation that is
  # not a listed known finding (it is still minimised and confirmed by replay before it is reported)
  VERIF_STOP_FIRST=1 VERIF_REPO="$wt" VERIF_OUT="$out" "$V/bin/verifctl" check "$prop" -budget "$BUDGET" > "$out/log" 2>&1
  local rc=$?
  if [ $rc -eq 1 ] && grep -q "^VIOLATION property=$prop" "$out/log"; then
    echo "CAUGHT  $name by $prop: $(grep -m1 '^violation class' "$out/log" | cut -c1-160)"; pass=$((pass+1))
  else
    echo "MISSED  $name by $prop (exit $rc): $(tail -2 "$out/log" | tr '\n' ' ' | cut -c1-200)"; fail=$((fail+1))
  fi
  git -C /repo worktree remove --force "$wt"; rm -rf "$out"
}
for p in "$V"/selftest/mutants/*.diff; do
  n=$(basename "$p" .diff); prop=${n%%-*}
  [[ -n "$PAT" && "$n" != *$PAT* ]] && continue
  run_one "$prop" "$p" "$n"
done
for d in "$V"/seeded/*/; do
  [ -f "$d/patch.diff" ] || continue
  n=$(basename "$d"); [[ -n "$PAT" && "$n" != *$PAT* ]] && continue
  props=$(python3 -c "import json,sys;m=json.load(open('$d/meta.json'));print(' '.join(m['caught_by'] if 'caught_by' in m else [m['property']]))")
  [ -z "$props" ] && { echo "SKIP    seeded/$n: $(python3 -c "import json;print(json.load(open('$d/meta.json')).get('status',''))")"; continue; }
  for prop in $props; do run_one "$prop" "$d/patch.diff" "seeded/$n"; done
done
echo "sensitivity: caught=$pass missed=$fail"
[ $fail -eq 0 ]
