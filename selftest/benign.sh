#!/bin/bash
# benign.sh [budget]: behaviour-preserving edits (selftest/benign/*.diff) applied to a scratch worktree
# must leave every check green (exit 0, no VIOLATION, no infrastructure refusal).
set -u
V="$(cd "$(dirname "$0")/.." && pwd)"
BUDGET="${1:-25}"
export PATH=/opt/veriftools/go1.26.8/bin:$PATH
bad=0
for p in "$V"/selftest/benign/*.diff; do
  n=$(basename "$p" .diff)
  wt=$(mktemp -d /tmp/benwt-XXXX); rmdir "$wt"
  git -C /repo worktree add -q --detach "$wt" HEAD
  git -C "$wt" apply "$p" || { echo "SKIP $n: does not apply"; git -C /repo worktree remove --force "$wt"; continue; }
  for prop in ${PROPS:-C01 C02 C08 C09 C10 C17 C18}; do
    out=$(mktemp -d /tmp/benout-XXXX)
    VERIF_REPO="$wt" VERIF_OUT="$out" "$V/bin/verifctl" check "$prop" -budget "$BUDGET" > "$out/log" 2>&1
    rc=$?
    if [ $rc -ne 0 ]; then echo "ALARM  $n / $prop exit=$rc: $(grep -m1 'violation class\|INFRA' "$out/log" | cut -c1-200)"; bad=$((bad+1)); else echo "green  $n / $prop"; fi
    rm -rf "$out"
  done
  git -C /repo worktree remove --force "$wt"
done
echo "benign: alarms=$bad"
[ $bad -eq 0 ]
