#!/bin/bash
# Build the framework from files on disk only (offline).
set -euo pipefail
cd "$(dirname "$0")"
export PATH=/opt/veriftools/go1.26.8/bin:$PATH GOFLAGS=-mod=mod GOPROXY=off GOSUMDB=off GOTOOLCHAIN=local
mkdir -p bin evidence
(cd simgen && go build -o ../bin/simgen .)
(cd verifctl && go build -o ../bin/verifctl .)
echo "setup ok"
