//go:build race

package simrt

import "runtime"

func RaceOff() { runtime.RaceDisable() }
func RaceOn()  { runtime.RaceEnable() }
