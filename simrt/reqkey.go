package simrt

import (
	"context"

	"github.com/yinfei8/jrpc2"
)

// ReqKey gives a handler goroutine (created by the uninstrumented dispatcher) a stable
// adoption key: the JSON-RPC id of the request it serves.
func ReqKey(ctx context.Context) string {
	if !On || ctx == nil {
		return ""
	}
	defer func() { recover() }()
	if r := jrpc2.InboundRequest(ctx); r != nil {
		return r.ID()
	}
	return ""
}
