module simrt

go 1.26

require github.com/yinfei8/jrpc2 v0.13.1

require golang.org/x/sync v0.0.0-20201207232520-09787c993a3a // indirect
