//go:build !race

package simfs

func raceOff() {}
func raceOn()  {}
