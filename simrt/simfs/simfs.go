// Package simfs is the simulated disk of the LuaHelper simulator: an in-memory tree reached by
// the server only through the read-side calls simgen redirects here, mutated by the harness
// ("the world"), with a fault plan bound to the n-th matching call.
package simfs

import (
	"simrt"

	"io/fs"
	"os"
	"path/filepath"
	"sort"
	"strings"
	"sync"
	"syscall"
	"time"
)

type node struct {
	dir  bool
	data []byte
	link string
}

// fsPoint: a read-side call of the server is a place where a real goroutine blocks in the kernel
// and others run.  In runs whose schedule sets the "fsyield" knob every such call is a scheduling
// point (taken before the disk lock), so windows that straddle a system call can be explored.
func fsPoint(op string) {
	if simrt.Knob("fsyield", 0) == 1 {
		simrt.Yield("fs:" + op)
	}
}

// Fault is one planned read-side fault.
type Fault struct {
	Op     string `json:"op"`             // ReadFile | ReadDir | Stat | Readlink | * (any)
	Suffix string `json:"suffix"`         // path suffix the call must have ("" = any)
	Nth    int    `json:"nth"`            // fire on the n-th matching call (1-based); 0 = every matching call
	Kind   string `json:"kind"`           // enoent | eacces | eio | torn | empty | stale
	Arg    int    `json:"arg,omitempty"`  // torn: number of bytes returned
	seen   int
}

// quietMutex: see simrt — the simulated disk's lock must not order server goroutines for the
// race detector.
type quietMutex struct{ m sync.Mutex }

//go:norace
func (q *quietMutex) Lock() { raceOff(); q.m.Lock(); raceOn() }

//go:norace
func (q *quietMutex) Unlock() { raceOff(); q.m.Unlock(); raceOn() }

var (
	mu     quietMutex
	On     bool
	nodes  = map[string]*node{}
	faults []*Fault
	calls  = map[string]int{}
	fired  = map[string]int{}
	// stale holds the previous content of files (for the "stale" read fault).
	stale = map[string][]byte{}
)

// Reset empties the disk and the fault plan and switches the simulated disk on.
func Reset() {
	mu.Lock()
	defer mu.Unlock()
	nodes = map[string]*node{"/": {dir: true}}
	faults = nil
	calls = map[string]int{}
	fired = map[string]int{}
	stale = map[string][]byte{}
	On = true
}

// Off makes every call fall through to the real file system again.
func Off() { mu.Lock(); On = false; mu.Unlock() }

func clean(p string) string {
	p = strings.ReplaceAll(p, "\\", "/")
	p = filepath.Clean(p)
	return p
}

func mkdirAll(p string) {
	parts := strings.Split(strings.TrimPrefix(p, "/"), "/")
	cur := ""
	for _, q := range parts {
		if q == "" {
			continue
		}
		cur += "/" + q
		if nodes[cur] == nil {
			nodes[cur] = &node{dir: true}
		}
	}
}

// MkdirAll creates a directory and its parents.
func MkdirAll(p string) { mu.Lock(); defer mu.Unlock(); mkdirAll(clean(p)) }

// WriteFile creates or replaces a file (the world's atomic write).
func WriteFile(p string, data []byte) {
	mu.Lock()
	defer mu.Unlock()
	p = clean(p)
	if i := strings.LastIndex(p, "/"); i > 0 {
		mkdirAll(p[:i])
	}
	if old := nodes[p]; old != nil && !old.dir {
		stale[p] = old.data
	}
	nodes[p] = &node{data: append([]byte(nil), data...)}
}

// Symlink creates a symbolic link p -> target.
func Symlink(p, target string) {
	mu.Lock()
	defer mu.Unlock()
	p = clean(p)
	if i := strings.LastIndex(p, "/"); i > 0 {
		mkdirAll(p[:i])
	}
	nodes[p] = &node{link: target}
}

// Remove deletes a file, or a directory with everything below it.
func Remove(p string) {
	mu.Lock()
	defer mu.Unlock()
	p = clean(p)
	delete(nodes, p)
	for q := range nodes {
		if strings.HasPrefix(q, p+"/") {
			delete(nodes, q)
		}
	}
}

// Exists reports whether the path exists (world view, no faults, no link resolution).
func Exists(p string) bool { mu.Lock(); defer mu.Unlock(); return nodes[clean(p)] != nil }

// Content returns the bytes of a file (world view).
func Content(p string) ([]byte, bool) {
	mu.Lock()
	defer mu.Unlock()
	n := nodes[clean(p)]
	if n == nil || n.dir || n.link != "" {
		return nil, false
	}
	return append([]byte(nil), n.data...), true
}

// Files lists every regular file (world view), sorted.
func Files() []string {
	mu.Lock()
	defer mu.Unlock()
	var out []string
	for p, n := range nodes {
		if !n.dir && n.link == "" {
			out = append(out, p)
		}
	}
	sort.Strings(out)
	return out
}

// Snapshot / Restore copy the whole disk (for the fresh-server differential).
type Snap map[string]node

func Snapshot() Snap {
	mu.Lock()
	defer mu.Unlock()
	s := Snap{}
	for p, n := range nodes {
		s[p] = node{dir: n.dir, link: n.link, data: append([]byte(nil), n.data...)}
	}
	return s
}

func Restore(s Snap) {
	mu.Lock()
	defer mu.Unlock()
	nodes = map[string]*node{}
	for p, n := range s {
		c := n
		nodes[p] = &c
	}
	stale = map[string][]byte{}
}

// SetFaults installs the fault plan (replacing the previous one).
func SetFaults(fs []Fault) {
	mu.Lock()
	defer mu.Unlock()
	faults = nil
	for i := range fs {
		f := fs[i]
		f.seen = 0
		faults = append(faults, &f)
	}
}

// ClearFaults removes all pending faults.
func ClearFaults() { mu.Lock(); faults = nil; mu.Unlock() }

// Fired returns how often each fault kind actually fired; Calls how often each op ran.
func Fired() map[string]int { return cp(fired) }
func Calls() map[string]int { return cp(calls) }
func cp(m map[string]int) map[string]int {
	mu.Lock()
	defer mu.Unlock()
	out := map[string]int{}
	for k, v := range m {
		out[k] = v
	}
	return out
}

// check returns the fault to apply to this call, if any.  mu held.
func check(op, p string) *Fault {
	calls[op]++
	for _, f := range faults {
		if f.Op != "*" && f.Op != op {
			continue
		}
		if f.Suffix != "" && !strings.HasSuffix(p, f.Suffix) {
			continue
		}
		f.seen++
		if f.Nth == 0 || f.seen == f.Nth {
			fired[op+"."+f.Kind]++
			return f
		}
	}
	return nil
}

func errOf(kind string) error {
	switch kind {
	case "enoent":
		return syscall.ENOENT
	case "eacces":
		return syscall.EACCES
	case "eio":
		return syscall.EIO
	}
	return nil
}

// resolve follows symlinks (bounded) and returns the final path and node.
func resolve(p string) (string, *node, error) {
	for i := 0; i < 40; i++ {
		n := nodes[p]
		if n == nil {
			// a parent may be a symlink
			dir, base := filepath.Split(p)
			dir = strings.TrimSuffix(dir, "/")
			if dir == "" || dir == p {
				return p, nil, syscall.ENOENT
			}
			rd, dn, err := resolve(dir)
			if err != nil || dn == nil || rd == dir {
				return p, nil, syscall.ENOENT
			}
			p = rd + "/" + base
			continue
		}
		if n.link == "" {
			return p, n, nil
		}
		t := n.link
		if !strings.HasPrefix(t, "/") {
			t = filepath.Dir(p) + "/" + t
		}
		p = clean(t)
	}
	return p, nil, syscall.ELOOP
}

type info struct {
	name string
	n    *node
}

func (i info) Name() string { return i.name }
func (i info) Size() int64  { return int64(len(i.n.data)) }
func (i info) Mode() fs.FileMode {
	if i.n.dir {
		return fs.ModeDir | 0755
	}
	if i.n.link != "" {
		return fs.ModeSymlink | 0777
	}
	return 0644
}
func (i info) ModTime() time.Time { return time.Time{} }
func (i info) IsDir() bool        { return i.n.dir }
func (i info) Sys() interface{}   { return nil }

func base(p string) string { return p[strings.LastIndex(p, "/")+1:] }

// ReadFile replaces ioutil.ReadFile / os.ReadFile.
func ReadFile(p string) ([]byte, error) {
	if On {
		fsPoint("ReadFile")
	}
	if !On {
		return os.ReadFile(p)
	}
	mu.Lock()
	defer mu.Unlock()
	p = clean(p)
	f := check("ReadFile", p)
	if f != nil {
		if err := errOf(f.Kind); err != nil {
			return nil, &fs.PathError{Op: "open", Path: p, Err: err}
		}
	}
	rp, n, err := resolve(p)
	if err != nil {
		return nil, &fs.PathError{Op: "open", Path: p, Err: err}
	}
	if n.dir {
		return nil, &fs.PathError{Op: "read", Path: rp, Err: syscall.EISDIR}
	}
	data := n.data
	if f != nil {
		switch f.Kind {
		case "torn":
			k := f.Arg
			if k > len(data) {
				k = len(data)
			}
			data = data[:k]
		case "empty":
			data = nil
		case "stale":
			if old, ok := stale[rp]; ok {
				data = old
			}
		}
	}
	return append([]byte(nil), data...), nil
}

// ReadDir replaces ioutil.ReadDir (which sorts by name; Lstat semantics for entries).
func ReadDir(p string) ([]os.FileInfo, error) {
	if On {
		fsPoint("ReadDir")
	}
	if !On {
		ents, err := os.ReadDir(p)
		if err != nil {
			return nil, err
		}
		out := make([]os.FileInfo, 0, len(ents))
		for _, e := range ents {
			fi, err := e.Info()
			if err != nil {
				return nil, err
			}
			out = append(out, fi)
		}
		return out, nil
	}
	mu.Lock()
	defer mu.Unlock()
	p = clean(p)
	if f := check("ReadDir", p); f != nil {
		if err := errOf(f.Kind); err != nil {
			return nil, &fs.PathError{Op: "open", Path: p, Err: err}
		}
	}
	rp, n, err := resolve(p)
	if err != nil {
		return nil, &fs.PathError{Op: "open", Path: p, Err: err}
	}
	if !n.dir {
		return nil, &fs.PathError{Op: "readdirent", Path: p, Err: syscall.ENOTDIR}
	}
	prefix := rp + "/"
	if rp == "/" {
		prefix = "/"
	}
	var out []os.FileInfo
	for q, c := range nodes {
		if q != rp && strings.HasPrefix(q, prefix) && !strings.Contains(q[len(prefix):], "/") {
			out = append(out, info{base(q), c})
		}
	}
	sort.Slice(out, func(i, j int) bool { return out[i].Name() < out[j].Name() })
	return out, nil
}

// Stat replaces os.Stat (follows links).
func Stat(p string) (os.FileInfo, error) {
	if On {
		fsPoint("Stat")
	}
	if !On {
		return os.Stat(p)
	}
	mu.Lock()
	defer mu.Unlock()
	p = clean(p)
	if f := check("Stat", p); f != nil {
		if err := errOf(f.Kind); err != nil {
			return nil, &fs.PathError{Op: "stat", Path: p, Err: err}
		}
	}
	_, n, err := resolve(p)
	if err != nil {
		return nil, &fs.PathError{Op: "stat", Path: p, Err: err}
	}
	return info{base(p), n}, nil
}

// Lstat replaces os.Lstat (does not follow the final link).
func Lstat(p string) (os.FileInfo, error) {
	if On {
		fsPoint("Lstat")
	}
	if !On {
		return os.Lstat(p)
	}
	mu.Lock()
	defer mu.Unlock()
	p = clean(p)
	check("Lstat", p)
	n := nodes[p]
	if n == nil {
		return nil, &fs.PathError{Op: "lstat", Path: p, Err: syscall.ENOENT}
	}
	return info{base(p), n}, nil
}

// Readlink replaces os.Readlink.
func Readlink(p string) (string, error) {
	if On {
		fsPoint("Readlink")
	}
	if !On {
		return os.Readlink(p)
	}
	mu.Lock()
	defer mu.Unlock()
	p = clean(p)
	check("Readlink", p)
	n := nodes[p]
	if n == nil || n.link == "" {
		return "", &fs.PathError{Op: "readlink", Path: p, Err: syscall.EINVAL}
	}
	return n.link, nil
}


// dirEntry adapts info to fs.DirEntry (os.ReadDir).
type dirEntry struct{ info }

func (d dirEntry) Type() fs.FileMode          { return d.info.Mode().Type() }
func (d dirEntry) Info() (fs.FileInfo, error) { return d.info, nil }

// ReadDirEntries replaces os.ReadDir.
func ReadDirEntries(p string) ([]os.DirEntry, error) {
	if On {
		fsPoint("ReadDir")
	}
	if !On {
		return os.ReadDir(p)
	}
	infos, err := ReadDir(p)
	if err != nil {
		return nil, err
	}
	out := make([]os.DirEntry, 0, len(infos))
	for _, fi := range infos {
		out = append(out, dirEntry{fi.(info)})
	}
	return out, nil
}

// WalkDir replaces filepath.WalkDir (lexical order, does not follow symlinks).
func WalkDir(root string, fn fs.WalkDirFunc) error {
	if !On {
		return filepath.WalkDir(root, fn)
	}
	fi, err := Lstat(root)
	if err != nil {
		return fn(root, nil, err)
	}
	return walkDir(clean(root), dirEntry{fi.(info)}, fn)
}

func walkDir(p string, d fs.DirEntry, fn fs.WalkDirFunc) error {
	if err := fn(p, d, nil); err != nil || !d.IsDir() {
		if err == filepath.SkipDir && d.IsDir() {
			err = nil
		}
		return err
	}
	ents, err := ReadDirEntries(p)
	if err != nil {
		if err = fn(p, d, err); err != nil {
			if err == filepath.SkipDir {
				err = nil
			}
			return err
		}
	}
	for _, e := range ents {
		if err := walkDir(p+"/"+e.Name(), e, fn); err != nil {
			if err == filepath.SkipDir {
				break
			}
			return err
		}
	}
	return nil
}

// Walk replaces filepath.Walk.
func Walk(root string, fn filepath.WalkFunc) error {
	if !On {
		return filepath.Walk(root, fn)
	}
	return WalkDir(root, func(p string, d fs.DirEntry, err error) error {
		if err != nil {
			return fn(p, nil, err)
		}
		fi, _ := d.Info()
		return fn(p, fi, nil)
	})
}
