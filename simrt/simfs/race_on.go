//go:build race

package simfs

import "runtime"

func raceOff() { runtime.RaceDisable() }
func raceOn()  { runtime.RaceEnable() }
