//go:build !race

package simrt

func RaceOff() {}
func RaceOn()  {}
