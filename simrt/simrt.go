// Package simrt is the runtime half of the LuaHelper deterministic simulator.
//
// The instrumenter (simgen) rewrites every synchronisation construct of a scratch copy of
// luahelper-lsp into a call of this package.  Inside a testing/synctest bubble a single
// scheduler goroutine (the harness driver) alternates synctest.Wait() with Step(): every server
// goroutine is parked on a private channel at each scheduling point and exactly one is released
// per step, chosen by a seeded policy (recorded on a tape) or read back from a tape (replay).
//
// With On == false every entry point falls through to the real operation, so the instrumented
// copy behaves like the original (the repository's own tests run on it in that mode).
package simrt

import (
	"strconv"
	"fmt"
	"hash/fnv"
	"math/rand"
	"os"
	"reflect"
	"runtime"
	"sort"
	"strings"
	"sync"
	"sync/atomic"
	"time"
	"unsafe"
)

// Config selects every schedule-level knob of one run.
type Config struct {
	Seed      int64  `json:"seed"`                // seeds the decision PRNG (ignored for decisions covered by Tape)
	Tape      []int  `json:"tape,omitempty"`      // replay: decisions are read from here, zeros once exhausted
	UseTape   bool   `json:"use_tape,omitempty"`  // true: replay from Tape even if empty (all-zero canonical schedule)
	Policy    string `json:"policy"`              // uniform | sticky | pct | lowest | highest
	Stick     int    `json:"stick,omitempty"`     // sticky: percent chance of continuing the goroutine that ran last
	PCTDepth  int    `json:"pct_depth,omitempty"` // pct: number of priority change points
	PCTSpan   int    `json:"pct_span,omitempty"`  // pct: change points are drawn in [0,span)
	NumCPU    int    `json:"num_cpu"`             // what runtime.NumCPU() reports to the server
	MapPolicy string `json:"map_policy"`          // sorted | reversed | random
	KeepTrace bool   `json:"keep_trace,omitempty"`
	// Knobs override tuning constants of the server (e.g. "lru": capacity of the live-analysis
	// cache); absent or 0 = the constant in the source.
	Knobs map[string]int `json:"knobs,omitempty"`
}

// G is one server goroutine known to the scheduler.
type G struct {
	ID      int
	Key     string // adoption key: first site (+ request key)
	Site    string
	release chan bool // true = run, false = die
	prio    int
	run     int64
}

type sleeper struct {
	g     *G
	until time.Time
}

// quietMutex is a mutex whose acquire / release are invisible to the race detector: the
// simulator's own lock must never contribute a happens-before edge between server goroutines (or
// between the driver and a server goroutine), or it would order accesses that nothing in the
// server orders and hide real races (e.g. an answer marshalled after its handler released the
// request mutex vs. the next handler writing the same buffer).
type quietMutex struct{ m sync.Mutex }

//go:norace
func (q *quietMutex) Lock() { RaceOff(); q.m.Lock(); RaceOn() }

//go:norace
func (q *quietMutex) Unlock() { RaceOff(); q.m.Unlock(); RaceOn() }

var (
	mu quietMutex
	// On is true while a simulated run is in progress.
	On bool

	cfg       Config
	rng       *rand.Rand
	tapePos   int
	recorded  []int
	runSeq    int64
	runnable  []*G
	blocked   map[interface{}][]*G
	sleepers  []sleeper
	forever   []*G
	nextID    int
	lastRun   *G
	dying     bool
	killCh    chan struct{}
	steps     int
	traceHash uint64
	traceLog  []string
	siteCount map[string]int
	probes    map[string]int
	recovered []string
	pctPoints map[int]bool
	ambiguous int
	uncontrolledRanges map[string]int

	// Progress is bumped at every scheduling event; the real-time watchdog reads it.
	Progress atomic.Int64
	// RunSeq numbers the runs of this process (the watchdog times each run on the real clock).
	RunSeq atomic.Int64
	// CurrentSite names the site of the goroutine released last (for hang reports).
	CurrentSite atomic.Value
)

// Reset starts a new simulated run.  It must be called from inside the bubble.
func Reset(c Config) {
	mu.Lock()
	defer mu.Unlock()
	cfg = c
	if cfg.NumCPU <= 0 {
		cfg.NumCPU = 4
	}
	rng = rand.New(rand.NewSource(c.Seed))
	tapePos = 0
	recorded = nil
	runSeq++
	RunSeq.Store(runSeq)
	runnable = nil
	blocked = map[interface{}][]*G{}
	held = map[interface{}]string{}
	sleepers = nil
	forever = nil
	nextID = 0
	lastRun = nil
	dying = false
	killCh = make(chan struct{})
	steps = 0
	traceHash = 14695981039346656037
	traceLog = nil
	siteCount = map[string]int{}
	probes = map[string]int{}
	recovered = nil
	ambiguous = 0
	uncontrolledRanges = map[string]int{}
	pctPoints = map[int]bool{}
	if cfg.Policy == "pct" {
		span := cfg.PCTSpan
		if span <= 0 {
			span = 400
		}
		for i := 0; i < cfg.PCTDepth; i++ {
			pctPoints[rng.Intn(span)] = true
		}
	}
	resetNet()
	resetFnPoints()
	On = true
}

// ---- optional function-entry scheduling points -------------------------------------------------
//
// simgen puts FnPoint(id) at the entry of every server function.  A run whose schedule sets the
// knob "fnyield" = k switches on roughly k per mille of them, chosen by a hash of (seed, id) so
// that the choice is part of the schedule and replays with it; each switched-on function yields
// on its first fnBudget calls only (a hot function must not eat the step budget).

const maxFn = 1 << 14
const fnBudget = 6

var fnOn [maxFn]bool
var fnLeft [maxFn]int32

func fnMix(seed int64, id int) uint64 {
	x := uint64(seed) ^ (uint64(id)+1)*0x9E3779B97F4A7C15
	x ^= x >> 30
	x *= 0xBF58476D1CE4E5B9
	x ^= x >> 27
	x *= 0x94D049BB133111EB
	x ^= x >> 31
	return x
}

func resetFnPoints() {
	k := cfg.Knobs["fnyield"]
	for i := range fnOn {
		fnOn[i] = k > 0 && int(fnMix(cfg.Seed, i)%1000) < k
		fnLeft[i] = fnBudget
	}
}

// FnPoint is the function-entry scheduling point.
//
//go:norace
func FnPoint(id int) {
	if fnOn[id&(maxFn-1)] {
		fnYield(id)
	}
}

//go:norace
func fnYield(id int) {
	if !On {
		return
	}
	// only goroutines the scheduler already knows (never the harness or a dispatcher goroutine)
	p := runtime_getProfLabel()
	if p == nil || (*G)(p).run != RunSeq.Load() {
		return
	}
	i := id & (maxFn - 1)
	if fnLeft[i] <= 0 {
		fnOn[i] = false
		return
	}
	fnLeft[i]--
	Yield("fn:" + strconv.Itoa(id))
}

// Stop ends simulation mode (entry points fall through again).
func Stop() {
	mu.Lock()
	On = false
	mu.Unlock()
}

// Stats is what a finished run reports about its schedule.
type Stats struct {
	Steps              int            `json:"steps"`
	TraceHash          string         `json:"trace_hash"`
	Goroutines         int            `json:"goroutines"`
	Sites              map[string]int `json:"sites,omitempty"`
	Probes             map[string]int `json:"probes,omitempty"`
	Recovered          []string       `json:"recovered,omitempty"`
	Ambiguous          int            `json:"ambiguous_adoptions,omitempty"`
	UncontrolledRanges map[string]int `json:"uncontrolled_ranges,omitempty"`
	Trace              []string       `json:"trace,omitempty"`
}

// Snapshot returns the statistics of the current run.
func Snapshot() Stats {
	mu.Lock()
	defer mu.Unlock()
	s := Stats{Steps: steps, TraceHash: fmt.Sprintf("%016x", traceHash), Goroutines: nextID,
		Sites: map[string]int{}, Probes: map[string]int{}, Ambiguous: ambiguous, UncontrolledRanges: map[string]int{}}
	for k, v := range siteCount {
		s.Sites[k] = v
	}
	for k, v := range probes {
		s.Probes[k] = v
	}
	for k, v := range uncontrolledRanges {
		s.UncontrolledRanges[k] = v
	}
	s.Recovered = append(s.Recovered, recovered...)
	s.Trace = append(s.Trace, traceLog...)
	return s
}

// RecordedTape returns every decision taken so far (for replay files).
func RecordedTape() []int {
	mu.Lock()
	defer mu.Unlock()
	return append([]int(nil), recorded...)
}

// Probe counts a rare condition the harness or the runtime wants to see reached.
func Probe(name string) {
	mu.Lock()
	if probes != nil {
		probes[name]++
	}
	mu.Unlock()
}

// decide must be called with mu held.  n is the number of alternatives; propose implements the
// policy in recording mode.
func decide(n int, propose func() int) int {
	if n <= 1 {
		return 0
	}
	var v int
	if cfg.UseTape || tapePos < len(cfg.Tape) {
		if tapePos < len(cfg.Tape) {
			v = cfg.Tape[tapePos]
		}
		tapePos++
		if v < 0 {
			v = -v
		}
		v %= n
	} else {
		v = propose()
	}
	recorded = append(recorded, v)
	return v
}

// Draw is a recorded uniform decision available to the harness (e.g. fault placement).
func Draw(n int) int {
	mu.Lock()
	defer mu.Unlock()
	return decide(n, func() int { return rng.Intn(n) })
}

// The descriptor of the current goroutine is kept in the goroutine's profiler-label slot
// (runtime/pprof's own accessors, reached by linkname): constant time, no shared map, and
// invisible to the race detector.  A goroutine inherits the slot of its creator, so the first
// scheduling point of every new goroutine (Enter for instrumented go statements, the handler
// entry yield for goroutines created by the dispatcher) always allocates a fresh descriptor.

//go:linkname runtime_setProfLabel runtime/pprof.runtime_setProfLabel
func runtime_setProfLabel(labels unsafe.Pointer)

//go:linkname runtime_getProfLabel runtime/pprof.runtime_getProfLabel
func runtime_getProfLabel() unsafe.Pointer

// cur returns the descriptor of the calling goroutine; fresh forces a new one.
//
//go:norace
func cur(key string, fresh bool) *G {
	if !fresh {
		if p := runtime_getProfLabel(); p != nil {
			g := (*G)(p)
			if g.run == RunSeq.Load() {
				return g
			}
		}
	}
	g := &G{Key: key, release: make(chan bool), run: RunSeq.Load()}
	runtime_setProfLabel(unsafe.Pointer(g))
	return g
}

//go:norace
func die() {
	RaceOn()
	runtime.Goexit()
}

// Yield is a scheduling point: the caller parks until the scheduler releases it.
//
//go:norace
func Yield(site string) { YieldKey(site, "") }

// YieldKey is Yield with an adoption key (used by handler-entry yields so that goroutines
// created by uninstrumented code are numbered deterministically).
//
//go:norace
func YieldKey(site, key string) {
	if !On {
		return
	}
	RaceOff()
	fresh := strings.HasPrefix(site, "go@") || strings.HasPrefix(site, "enter:")
	g := cur(site+"#"+key, fresh)
	Progress.Add(1)
	mu.Lock()
	if dying {
		mu.Unlock()
		die()
	}
	g.Site = site
	runnable = append(runnable, g)
	mu.Unlock()
	ok := <-g.release
	if !ok {
		die()
	}
	RaceOn()
}

// Enter is the first statement of every goroutine started by an instrumented go statement.
func Enter(site string) { YieldKey("go@"+site, "") }

// Exit is deferred by every such goroutine.
//
//go:norace
func Exit() {
	if !On {
		return
	}
	RaceOff()
	runtime_setProfLabel(nil)
	RaceOn()
}

// Runnable reports how many goroutines are parked at a scheduling point.
func Runnable() int { mu.Lock(); defer mu.Unlock(); return len(runnable) }

// Blocked reports how many goroutines wait for a simulated lock.
func Blocked() int {
	mu.Lock()
	defer mu.Unlock()
	n := 0
	for _, v := range blocked {
		n += len(v)
	}
	return n
}

// BlockedSites lists where the lock waiters are (deadlock reports).
func BlockedSites() []string {
	mu.Lock()
	defer mu.Unlock()
	var out []string
	for _, v := range blocked {
		for _, g := range v {
			out = append(out, fmt.Sprintf("g%d@%s", g.ID, g.Site))
		}
	}
	sort.Strings(out)
	return out
}

// RunnableSites lists the parked goroutines (id@site), sorted by id.
func RunnableSites() []string {
	mu.Lock()
	defer mu.Unlock()
	nameAll()
	var out []string
	for _, g := range runnable {
		out = append(out, fmt.Sprintf("g%d@%s", g.ID, g.Site))
	}
	return out
}

// nameAll gives ids to goroutines that arrived since the last step, in key order, and sorts
// the runnable set by id.  mu held.
func nameAll() {
	var fresh []*G
	for _, g := range runnable {
		if g.ID == 0 {
			fresh = append(fresh, g)
		}
	}
	if len(fresh) > 0 {
		sort.SliceStable(fresh, func(i, j int) bool { return fresh[i].Key < fresh[j].Key })
		for i, g := range fresh {
			if i > 0 && fresh[i-1].Key == g.Key {
				ambiguous++
			}
			nextID++
			g.ID = nextID
			g.prio = 1000 + rng.Intn(1000)
		}
	}
	sort.Slice(runnable, func(i, j int) bool { return runnable[i].ID < runnable[j].ID })
}

// Step releases one parked goroutine; it must only be called at quiescence (after
// synctest.Wait).  It reports false when nothing is runnable.
//
//go:norace
func Step() bool {
	mu.Lock()
	if len(runnable) == 0 {
		mu.Unlock()
		return false
	}
	nameAll()
	n := len(runnable)
	k := decide(n, func() int {
		switch cfg.Policy {
		case "lowest":
			return 0
		case "highest":
			return n - 1
		case "sticky":
			if lastRun != nil && rng.Intn(100) < cfg.Stick {
				for i, g := range runnable {
					if g == lastRun {
						return i
					}
				}
			}
			return rng.Intn(n)
		case "pct":
			if pctPoints[steps] && lastRun != nil {
				lastRun.prio = -steps // demote: lower than every initial priority
			}
			best := 0
			for i, g := range runnable {
				if g.prio > runnable[best].prio {
					best = i
				}
			}
			return best
		}
		return rng.Intn(n)
	})
	g := runnable[k]
	runnable = append(runnable[:k], runnable[k+1:]...)
	steps++
	lastRun = g
	h := fnv.New64a()
	fmt.Fprintf(h, "%x|%d|%s", traceHash, g.ID, g.Site)
	traceHash = h.Sum64()
	siteCount[g.Site]++
	if cfg.KeepTrace {
		traceLog = append(traceLog, fmt.Sprintf("%d:%s", g.ID, g.Site))
	}
	mu.Unlock()
	Progress.Add(1)
	CurrentSite.Store(g.Site)
	g.release <- true
	return true
}

// Steps returns the number of scheduler steps taken in this run.
func Steps() int { mu.Lock(); defer mu.Unlock(); return steps }

// ---- channels -------------------------------------------------------------------------------

// Recv is `<-ch` with a scheduling point before and after; the blocking wait is killable.
func Recv[T any](ch <-chan T, site string) T {
	v, _ := Recv2(ch, site)
	return v
}

// Recv2 is `v, ok := <-ch`.
func Recv2[T any](ch <-chan T, site string) (T, bool) {
	if !On {
		v, ok := <-ch
		return v, ok
	}
	Yield("recv@" + site)
	var v T
	var ok bool
	select {
	case v, ok = <-ch:
	case <-killCh:
		runtime.Goexit()
	}
	Yield("recvd@" + site)
	return v, ok
}

// Send is `ch <- v`.
func Send[T any](ch chan<- T, v T, site string) {
	if !On {
		ch <- v
		return
	}
	Yield("send@" + site)
	select {
	case ch <- v:
	case <-killCh:
		runtime.Goexit()
	}
	Yield("sent@" + site)
}

// Select replaces reflect.Select: ready receive cases are polled in an order chosen by the
// scheduler; if none is ready the real (killable) select blocks.
func Select(cases []reflect.SelectCase) (int, reflect.Value, bool) {
	if !On {
		return reflect.Select(cases)
	}
	Yield("select")
	n := len(cases)
	mu.Lock()
	start := decide(n, func() int { return rng.Intn(n) })
	mu.Unlock()
	for i := 0; i < n; i++ {
		k := (start + i) % n
		if cases[k].Dir == reflect.SelectRecv && cases[k].Chan.IsValid() {
			if v, ok := cases[k].Chan.TryRecv(); ok || v.IsValid() {
				Probe("select.ready")
				Yield("selected")
				return k, v, ok
			}
		}
	}
	ext := append(append([]reflect.SelectCase(nil), cases...), reflect.SelectCase{Dir: reflect.SelectRecv, Chan: reflect.ValueOf(killCh)})
	c, v, ok := reflect.Select(ext)
	if c == n {
		runtime.Goexit()
	}
	Yield("selected")
	return c, v, ok
}

// ---- locks ----------------------------------------------------------------------------------

type locker interface {
	TryLock() bool
	Lock()
	Unlock()
}

// Lock acquires the real mutex without ever blocking on it: a goroutine that finds it taken is
// parked as a waiter and made runnable again by Unlock.
//
//go:norace
func Lock(m locker, site string) {
	if !On {
		m.Lock()
		return
	}
	if dbg := os.Getenv("VERIF_DEBUG_SITE"); dbg != "" && dbg == site {
		buf := make([]byte, 1<<13)
		buf = buf[:runtime.Stack(buf, false)]
		fmt.Fprintf(os.Stderr, "SITE %s step=%d\n%s\n", site, Steps(), buf)
	}
	Yield("lock@" + site)
	for !m.TryLock() {
		RaceOff()
		g := cur("", false)
		mu.Lock()
		if dying {
			mu.Unlock()
			die()
		}
		g.Site = "blocked@" + site
		blocked[m] = append(blocked[m], g)
		if probes != nil {
			probes["lock.contended"]++
		}
		mu.Unlock()
		ok := <-g.release
		if !ok {
			die()
		}
		RaceOn()
	}
	RaceOff()
	mu.Lock()
	held[m] = site
	mu.Unlock()
	RaceOn()
}

// held: the mutexes currently locked through Lock, with the site that locked them.
var held = map[interface{}]string{}

// HeldLocks lists the sites whose mutex is still locked (sorted).  At a quiescent point with
// every request answered nobody is inside a critical section, so anything listed here was locked
// on a path that forgot to unlock it.
func HeldLocks() []string {
	mu.Lock()
	defer mu.Unlock()
	var out []string
	for _, s := range held {
		out = append(out, s)
	}
	sort.Strings(out)
	return out
}

// Unlock releases the real mutex and makes its waiters runnable.
//
//go:norace
func Unlock(m locker) {
	m.Unlock()
	if !On {
		return
	}
	RaceOff()
	mu.Lock()
	delete(held, m)
	ws := blocked[m]
	delete(blocked, m)
	for _, w := range ws {
		w.Site = "retry-" + w.Site
		runnable = append(runnable, w)
	}
	mu.Unlock()
	RaceOn()
}

type rlocker interface {
	TryRLock() bool
	RLock()
	RUnlock()
}

// RLock / RUnlock: same scheme for the read side of a RWMutex.
//
//go:norace
func RLock(m rlocker, site string) {
	if !On {
		m.RLock()
		return
	}
	Yield("rlock@" + site)
	for !m.TryRLock() {
		RaceOff()
		g := cur("", false)
		mu.Lock()
		if dying {
			mu.Unlock()
			die()
		}
		g.Site = "blocked@" + site
		blocked[m] = append(blocked[m], g)
		mu.Unlock()
		ok := <-g.release
		if !ok {
			die()
		}
		RaceOn()
	}
}

//go:norace
func RUnlock(m rlocker) {
	m.RUnlock()
	if !On {
		return
	}
	RaceOff()
	mu.Lock()
	ws := blocked[m]
	delete(blocked, m)
	for _, w := range ws {
		runnable = append(runnable, w)
	}
	mu.Unlock()
	RaceOn()
}

// WaitGroupWait wraps wg.Wait with scheduling points.
func WaitGroupWait(wg *sync.WaitGroup, site string) {
	Yield("wgwait@" + site)
	wg.Wait()
	Yield("wgdone@" + site)
}

// Knob returns a per-run override of a tuning constant (or def).
func Knob(name string, def int) int {
	if !On {
		return def
	}
	if v := cfg.Knobs[name]; v > 0 {
		if probes != nil {
			Probe("knob." + name)
		}
		return v
	}
	return def
}

// NumCPU replaces runtime.NumCPU.
func NumCPU() int {
	if !On {
		return runtime.NumCPU()
	}
	return cfg.NumCPU
}

// ---- time -----------------------------------------------------------------------------------

//go:norace
func parkOff(g *G, site string) {
	g.Site = site
	ok := <-g.release
	if !ok {
		die()
	}
}

// Sleep parks the goroutine until the scheduler has advanced the simulated clock by d.
//
//go:norace
func Sleep(d time.Duration) {
	if !On {
		time.Sleep(d)
		return
	}
	RaceOff()
	g := cur("sleep", false)
	mu.Lock()
	if dying {
		mu.Unlock()
		die()
	}
	sleepers = append(sleepers, sleeper{g, time.Now().Add(d)})
	mu.Unlock()
	parkOff(g, "sleeping")
	RaceOn()
	Yield("woke")
}

// Sleepers reports the number of goroutines waiting for the clock and the earliest deadline.
func Sleepers() (int, time.Time) {
	mu.Lock()
	defer mu.Unlock()
	var first time.Time
	for i, s := range sleepers {
		if i == 0 || s.until.Before(first) {
			first = s.until
		}
	}
	return len(sleepers), first
}

// AdvanceClock moves the bubble's fake clock (scheduler goroutine only) and makes due sleepers
// runnable.
//
//go:norace
func AdvanceClock(d time.Duration) int {
	if d > 0 {
		time.Sleep(d)
	}
	now := time.Now()
	mu.Lock()
	sort.SliceStable(sleepers, func(i, j int) bool { return sleepers[i].until.Before(sleepers[j].until) })
	var rest []sleeper
	n := 0
	for _, sl := range sleepers {
		if !sl.until.After(now) {
			sl.g.Site = "timer-fired"
			runnable = append(runnable, sl.g)
			n++
		} else {
			rest = append(rest, sl)
		}
	}
	sleepers = rest
	mu.Unlock()
	return n
}

// ---- recover --------------------------------------------------------------------------------

// Recovered wraps every recover() of the server: a recovered value that is not one of the
// parser's own control-flow sentinels is an internal fault that the server swallowed.
func Recovered(v interface{}) interface{} {
	if v == nil || !On {
		return v
	}
	tn := fmt.Sprintf("%T", v)
	if strings.HasSuffix(tn, "lexer.TooManyErr") || strings.HasSuffix(tn, "annotatelexer.ParseAnnotateErr") {
		return v
	}
	buf := make([]byte, 1<<14)
	buf = buf[:runtime.Stack(buf, false)]
	fn := innermostRepoFrame(string(buf))
	if os.Getenv("VERIF_DEBUG_RECOVER") != "" {
		fmt.Fprintf(os.Stderr, "RECOVERED %v\n%s\n", v, clipStr(string(buf), 3000))
	}
	mu.Lock()
	if len(recovered) < 20 {
		msg := fmt.Sprintf("%v", v)
		if len(msg) > 200 {
			msg = msg[:200]
		}
		recovered = append(recovered, fmt.Sprintf("%s|%s|%s", tn, fn, msg))
	}
	mu.Unlock()
	return v
}

func clipStr(s string, n int) string {
	if len(s) > n {
		return s[:n]
	}
	return s
}

// innermostRepoFrame extracts the innermost luahelper-lsp function below the panic frame.
func innermostRepoFrame(stack string) string {
	lines := strings.Split(stack, "\n")
	seenPanic := false
	for _, l := range lines {
		if strings.HasPrefix(l, "panic(") {
			seenPanic = true
			continue
		}
		if !seenPanic || strings.HasPrefix(l, "\t") {
			continue
		}
		if strings.HasPrefix(l, "luahelper-lsp/") {
			if i := strings.LastIndex(l, "("); i > 0 {
				l = l[:i]
			}
			return l
		}
	}
	return "?"
}

// ---- teardown -------------------------------------------------------------------------------

// KillAll terminates every goroutine parked in the simulator (end of a run).  Goroutines
// blocked in a simulated channel operation are woken through the kill channel.
//
//go:norace
func KillAll() int {
	mu.Lock()
	if dying {
		mu.Unlock()
		return 0
	}
	dying = true
	var victims []*G
	victims = append(victims, runnable...)
	runnable = nil
	for _, ws := range blocked {
		victims = append(victims, ws...)
	}
	blocked = map[interface{}][]*G{}
	for _, sl := range sleepers {
		victims = append(victims, sl.g)
	}
	sleepers = nil
	victims = append(victims, forever...)
	forever = nil
	victims = append(victims, netWaiters()...)
	close(killCh)
	mu.Unlock()
	for _, g := range victims {
		g.release <- false
	}
	return len(victims)
}

// ---- map ranges -----------------------------------------------------------------------------

// Iter iterates a snapshot of a map's keys in an order chosen by the scheduler.
type Iter[K comparable, V any] struct {
	m    map[K]V
	keys []K
	i    int
}

func keyLess(a, b reflect.Value) (less bool, ok bool) {
	switch a.Kind() {
	case reflect.String:
		return a.String() < b.String(), true
	case reflect.Int, reflect.Int8, reflect.Int16, reflect.Int32, reflect.Int64:
		return a.Int() < b.Int(), true
	case reflect.Uint, reflect.Uint8, reflect.Uint16, reflect.Uint32, reflect.Uint64, reflect.Uintptr:
		return a.Uint() < b.Uint(), true
	case reflect.Float32, reflect.Float64:
		return a.Float() < b.Float(), true
	case reflect.Bool:
		return !a.Bool() && b.Bool(), true
	case reflect.Struct:
		for i := 0; i < a.NumField(); i++ {
			l, ok := keyLess(a.Field(i), b.Field(i))
			if !ok {
				return false, false
			}
			if l {
				return true, true
			}
			if g, _ := keyLess(b.Field(i), a.Field(i)); g {
				return false, true
			}
		}
		return false, true
	}
	return false, false
}

func order[K comparable, V any](m map[K]V, site string) *Iter[K, V] {
	it := &Iter[K, V]{m: m}
	if len(m) == 0 {
		return it
	}
	it.keys = make([]K, 0, len(m))
	for k := range m {
		it.keys = append(it.keys, k)
	}
	if !On || len(it.keys) < 2 {
		return it
	}
	sortable := true
	sort.Slice(it.keys, func(i, j int) bool {
		l, ok := keyLess(reflect.ValueOf(it.keys[i]), reflect.ValueOf(it.keys[j]))
		if !ok {
			sortable = false
		}
		return l
	})
	mu.Lock()
	defer mu.Unlock()
	if !sortable {
		uncontrolledRanges[site]++
		return it
	}
	switch cfg.MapPolicy {
	case "reversed":
		for i, j := 0, len(it.keys)-1; i < j; i, j = i+1, j-1 {
			it.keys[i], it.keys[j] = it.keys[j], it.keys[i]
		}
	case "random":
		// one recorded decision per loop; 0 means "sorted" so that a zeroed tape is canonical
		s := decide(1<<30, func() int { return 1 + rng.Intn(1<<30-1) })
		if s != 0 {
			rr := rand.New(rand.NewSource(int64(s)))
			rr.Shuffle(len(it.keys), func(i, j int) { it.keys[i], it.keys[j] = it.keys[j], it.keys[i] })
		}
	}
	return it
}

func RangeKV[M ~map[K]V, K comparable, V any](m M, site string) (k K, v V, it *Iter[K, V]) {
	return k, v, order[K, V](m, site)
}
func RangeK[M ~map[K]V, K comparable, V any](m M, site string) (k K, it *Iter[K, V]) {
	return k, order[K, V](m, site)
}
func RangeV[M ~map[K]V, K comparable, V any](m M, site string) (v V, it *Iter[K, V]) {
	return v, order[K, V](m, site)
}
func Range0[M ~map[K]V, K comparable, V any](m M, site string) *Iter[K, V] {
	return order[K, V](m, site)
}

func (it *Iter[K, V]) next() (k K, v V, ok bool) {
	for it.i < len(it.keys) {
		k = it.keys[it.i]
		it.i++
		if v, ok = it.m[k]; ok {
			return k, v, true
		}
	}
	return k, v, false
}
func (it *Iter[K, V]) NextKV(k *K, v *V) bool {
	kk, vv, ok := it.next()
	if ok {
		*k, *v = kk, vv
	}
	return ok
}
func (it *Iter[K, V]) NextK(k *K) bool {
	kk, _, ok := it.next()
	if ok {
		*k = kk
	}
	return ok
}
func (it *Iter[K, V]) NextV(v *V) bool {
	_, vv, ok := it.next()
	if ok {
		*v = vv
	}
	return ok
}
func (it *Iter[K, V]) Next0() bool { _, _, ok := it.next(); return ok }
