package simrt

import (
	"errors"
	"net"
	"time"
)

// SimConn is the in-memory datagram connection handed to the server's telemetry code.
type SimConn struct {
	Addr     string
	queue    []dgram
	waiter   *G
	closed   bool
	Written  [][]byte
	WriteErr int // number of upcoming writes that fail
}

type dgram struct {
	data []byte
	err  error
}

var (
	conns    []*SimConn
	dialErrs int // number of upcoming dials that fail
	netStats map[string]int
)

func resetNet() {
	conns = nil
	dialErrs = 0
	netStats = map[string]int{}
}

// FailDials makes the next n net.Dial calls fail.
func FailDials(n int) { mu.Lock(); dialErrs = n; mu.Unlock() }

// Conns returns the connections opened so far in this run.
func Conns() []*SimConn { mu.Lock(); defer mu.Unlock(); return append([]*SimConn(nil), conns...) }

// NetStats returns counters of network events that actually happened.
func NetStats() map[string]int {
	mu.Lock()
	defer mu.Unlock()
	out := map[string]int{}
	for k, v := range netStats {
		out[k] = v
	}
	return out
}

// Dial replaces net.Dial.
func Dial(network, addr string) (net.Conn, error) {
	if !On {
		return net.Dial(network, addr)
	}
	mu.Lock()
	defer mu.Unlock()
	if dialErrs > 0 {
		dialErrs--
		netStats["dial.error"]++
		return nil, &net.OpError{Op: "dial", Net: network, Err: errors.New("simulated: network is unreachable")}
	}
	c := &SimConn{Addr: addr}
	conns = append(conns, c)
	netStats["dial.ok"]++
	return c, nil
}

// Read blocks (parked, killable) until the simulator delivers a datagram or an error.
//
//go:norace
func (c *SimConn) Read(b []byte) (int, error) {
	RaceOff()
	g := cur("netread", false)
	for {
		mu.Lock()
		if dying {
			mu.Unlock()
			die()
		}
		if len(c.queue) > 0 {
			d := c.queue[0]
			c.queue = c.queue[1:]
			mu.Unlock()
			RaceOn()
			Yield("net-read-done")
			if d.err != nil {
				return 0, d.err
			}
			return copy(b, d.data), nil
		}
		if c.closed {
			// A closed conn makes the real handleRecv spin (see DESIGN §5); the simulator parks the
			// reader for good instead of burning the step budget, and counts the event.
			netStats["read.on-closed"]++
			forever = append(forever, g)
			mu.Unlock()
			parkOff(g, "read-on-closed-conn")
			continue
		}
		c.waiter = g
		mu.Unlock()
		parkOff(g, "net-read")
	}
}

// Write records the datagram (or fails if a write fault is armed).
func (c *SimConn) Write(b []byte) (int, error) {
	mu.Lock()
	defer mu.Unlock()
	if c.WriteErr > 0 {
		c.WriteErr--
		netStats["write.error"]++
		return 0, &net.OpError{Op: "write", Net: "udp", Err: errors.New("simulated: connection refused")}
	}
	netStats["write.ok"]++
	c.Written = append(c.Written, append([]byte(nil), b...))
	return len(b), nil
}

func (c *SimConn) Close() error                       { mu.Lock(); c.closed = true; mu.Unlock(); return nil }
func (c *SimConn) LocalAddr() net.Addr                { return nil }
func (c *SimConn) RemoteAddr() net.Addr               { return nil }
func (c *SimConn) SetDeadline(t time.Time) error      { return nil }
func (c *SimConn) SetReadDeadline(t time.Time) error  { return nil }
func (c *SimConn) SetWriteDeadline(t time.Time) error { return nil }

// Deliver queues a datagram (err == nil) or a one-shot read error and makes a parked reader
// runnable.  Scheduler goroutine only.
//
//go:norace
func (c *SimConn) Deliver(d []byte, err error) {
	mu.Lock()
	c.queue = append(c.queue, dgram{append([]byte(nil), d...), err})
	if err != nil {
		netStats["read.error"]++
	} else {
		netStats["read.datagram"]++
	}
	if c.waiter != nil {
		c.waiter.Site = "net-datagram"
		runnable = append(runnable, c.waiter)
		c.waiter = nil
	}
	mu.Unlock()
}

// FailWrites arms n write faults.
func (c *SimConn) FailWrites(n int) { mu.Lock(); c.WriteErr = n; mu.Unlock() }

// WrittenCount returns how many datagrams the server wrote.
func (c *SimConn) WrittenCount() int { mu.Lock(); defer mu.Unlock(); return len(c.Written) }

// netWaiters: mu held.
func netWaiters() []*G {
	var out []*G
	for _, c := range conns {
		if c.waiter != nil {
			out = append(out, c.waiter)
			c.waiter = nil
		}
	}
	return out
}
