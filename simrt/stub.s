// empty: lets the package declare body-less functions bound by go:linkname
