package main

import (
	"bufio"
	"bytes"
	"encoding/json"
	"fmt"
	"os"
	"os/exec"
	"regexp"
	"strings"
	"sync"
)

var wallRe = regexp.MustCompile(`"wall_ms":\d+`)

// detSelfTest proves replay determinism for a property: the same seeds are run in many processes,
// at GOMAXPROCS 1/4/16, in forward and reverse order (so every seed is met at a different
// position in a process's life, exposing leakage through process-global state), and the full
// result lines (verdict, schedule-trace hashes, step counts, probes, site counters) must agree.
func detSelfTest(prop string, n int, race bool, seed int64) int {
	worker, _ := build(race)
	defer cleanup()
	seeds := make([]int64, n)
	for i := range seeds {
		seeds[i] = seed*1000003 + int64(i)
	}
	type cfg struct {
		procs   string
		reverse bool
		chunk   int
	}
	cfgs := []cfg{{"1", false, 10}, {"4", false, 10}, {"16", false, 10}, {"1", true, 7}, {"16", true, 13}, {"4", false, 1 + n/3}}
	results := make([]map[int64]string, len(cfgs))
	var wg sync.WaitGroup
	sem := make(chan struct{}, 16)
	var mu sync.Mutex
	procsUsed := 0
	for ci, c := range cfgs {
		results[ci] = map[int64]string{}
		order := append([]int64(nil), seeds...)
		if c.reverse {
			for i, j := 0, len(order)-1; i < j; i, j = i+1, j-1 {
				order[i], order[j] = order[j], order[i]
			}
		}
		for from := 0; from < len(order); from += c.chunk {
			to := from + c.chunk
			if to > len(order) {
				to = len(order)
			}
			part := order[from:to]
			wg.Add(1)
			go func(ci int, c cfg, part []int64) {
				defer wg.Done()
				sem <- struct{}{}
				defer func() { <-sem }()
				// a worker stops early after a run that ended in a violation (known findings count):
				// the rest of its part goes to a fresh process, as in a check
				for len(part) > 0 {
					jf, _ := os.CreateTemp(scratch, "det-*.json")
					b, _ := json.Marshal(Job{Prop: prop, Mode: "explore", Tier: "quick", Seeds: part})
					jf.Write(b)
					jf.Close()
					cmd := exec.Command(worker, "-test.run", "^TestWorker$", "-test.timeout", "0")
					cmd.Dir = scratch
					cmd.Env = append(os.Environ(), "VERIF_JOB="+jf.Name(), "GOMAXPROCS="+c.procs)
					out, _ := cmd.Output()
					got := map[int64]bool{}
					mu.Lock()
					procsUsed++
					sc := bufio.NewScanner(bytes.NewReader(out))
					sc.Buffer(make([]byte, 1<<20), 1<<28)
					for sc.Scan() {
						line := sc.Text()
						if strings.HasPrefix(line, "@@RESULT ") {
							var rl struct {
								Seed int64 `json:"seed"`
							}
							unmarshalNum([]byte(line[9:]), &rl)
							results[ci][rl.Seed] = wallRe.ReplaceAllString(line[9:], `"wall_ms":0`)
							got[rl.Seed] = true
						}
					}
					mu.Unlock()
					var rest []int64
					for _, s := range part {
						if !got[s] {
							rest = append(rest, s)
						}
					}
					if len(rest) == len(part) {
						break // no progress: a crash; reported below as missing results
					}
					part = rest
				}
			}(ci, c, part)
		}
	}
	wg.Wait()
	bad := 0
	for _, s := range seeds {
		ref, ok := results[0][s]
		if !ok {
			fmt.Printf("determinism: seed %d produced no result in configuration 0 (crash?)\n", s)
			bad++
			continue
		}
		for ci := 1; ci < len(cfgs); ci++ {
			if results[ci][s] != ref {
				bad++
				fmt.Printf("determinism: seed %d differs between GOMAXPROCS=%s and GOMAXPROCS=%s reverse=%v\n  A: %s\n  B: %s\n", s, cfgs[0].procs, cfgs[ci].procs, cfgs[ci].reverse, firstDiff(ref, results[ci][s]), firstDiff(results[ci][s], ref))
				break
			}
		}
	}
	fmt.Printf("determinism self-test: property=%s seeds=%d configurations=%d processes=%d non-reproducible=%d\n", prop, n, len(cfgs), procsUsed, bad)
	if bad > 0 {
		return 2
	}
	return 0
}

func firstDiff(a, b string) string {
	i := 0
	for i < len(a) && i < len(b) && a[i] == b[i] {
		i++
	}
	from := i - 80
	if from < 0 {
		from = 0
	}
	to := i + 160
	if to > len(a) {
		to = len(a)
	}
	return a[from:to]
}
