module verifctl

go 1.26
