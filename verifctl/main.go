// verifctl orchestrates the LuaHelper simulation checks: it instruments a scratch copy of
// /repo's working tree, builds the worker, fans seeds out to worker processes, attributes
// crashes and hangs, minimises violations, consults known_findings.json and writes evidence.
//
//	verifctl check  <PROP> [-tier quick|thorough] [-budget sec] [-workers n]
//	verifctl replay <PROP> <file>
//
// exit 0: property held on everything explored (KNOWN-FINDING lines allowed)
// exit 1: VIOLATION property=<id> replay=<path>
// exit 2: infrastructure trouble (build failure, instrumenter refusal, non-reproducible run)
package main

import (
	"bufio"
	"bytes"
	"crypto/sha256"
	"encoding/json"
	"flag"
	"fmt"
	"os"
	"os/exec"
	"path/filepath"
	"regexp"
	"sort"
	"strconv"
	"strings"
	"sync"
	"time"
)

var (
	verifDir = "/verif"
	repoDir  = "/repo"
	goBin    = "/opt/veriftools/go1.26.8/bin"
)

type Verdict struct {
	OK           bool                   `json:"ok"`
	Invalid      bool                   `json:"invalid"`
	Class        string                 `json:"class"`
	Signature    string                 `json:"signature"`
	Detail       string                 `json:"detail"`
	Scenario     map[string]interface{} `json:"scenario"`
	Runs         int                    `json:"runs"`
	Steps        int                    `json:"steps"`
	SimMillis    int64                  `json:"sim_ms"`
	Fired        map[string]int         `json:"fired"`
	Probes       map[string]int         `json:"probes"`
	Sites        map[string]int         `json:"sites"`
	Traces       []string               `json:"traces"`
	NonTrivial   bool                   `json:"nontrivial"`
	Shape        string                 `json:"shape"`
	Uncontrolled map[string]int         `json:"uncontrolled"`
	Ambiguous    int                    `json:"ambiguous"`
}

type ResultLine struct {
	Seed    int64                  `json:"seed"`
	File    string                 `json:"file"`
	Verdict *Verdict               `json:"verdict"`
	WallMs  int64                  `json:"wall_ms"`
	Sample  map[string]interface{} `json:"sample"`
}

type Job struct {
	Prop    string   `json:"prop"`
	Mode    string   `json:"mode"`
	Tier    string   `json:"tier"`
	Seeds   []int64  `json:"seeds,omitempty"`
	Replays []string `json:"replays,omitempty"`
	HangSec int      `json:"hang_sec,omitempty"`
	Full    bool     `json:"full,omitempty"`
}

// Violation is one failing case found by exploration.
type Violation struct {
	Seed      int64
	Class     string
	Signature string
	Detail    string
	Scenario  map[string]interface{}
}

type Finding struct {
	Property  string `json:"property"`
	Status    string `json:"status"` // known | fixed
	Signature string `json:"signature"`
	Class     string `json:"class,omitempty"`
	Commit    string `json:"commit,omitempty"`
	What      string `json:"what"`
	// Replay names a recorded history (under findings/) that demonstrates a known finding which
	// the generators do not produce; ReplaySignature is what that history fails with.  The check
	// replays it at every run: while it still fails that way the finding is announced, once it
	// holds (the defect is gone) nothing is printed.  It suppresses nothing else.
	Replay          string `json:"replay,omitempty"`
	ReplaySignature string `json:"replay_signature,omitempty"`
}

func env() []string {
	e := os.Environ()
	e = append(e, "PATH="+goBin+":"+os.Getenv("PATH"), "GOFLAGS=-mod=mod", "GOPROXY=off", "GOSUMDB=off", "GOTOOLCHAIN=local")
	return e
}

func infra(format string, a ...interface{}) {
	fmt.Fprintf(os.Stderr, "verifctl: INFRASTRUCTURE: "+format+"\n", a...)
	cleanup()
	os.Exit(2)
}

var scratch string
var explicitSeeds []int64

func cleanup() {
	if scratch != "" && os.Getenv("VERIF_KEEP_SCRATCH") == "" {
		os.RemoveAll(scratch)
	}
}

// build instruments a copy of the working tree and compiles the worker.
func build(race bool) (worker string, simgenStats map[string]interface{}) {
	base := os.Getenv("VERIF_SCRATCH_BASE")
	if base == "" {
		base = os.TempDir()
	}
	var err error
	scratch, err = os.MkdirTemp(base, "luasim-")
	if err != nil {
		infra("mktemp: %v", err)
	}
	cmd := exec.Command(filepath.Join(verifDir, "scripts/mkscratch.sh"), scratch)
	cmd.Env = append(env(), "VERIF_REPO="+repoDir)
	outb, err := cmd.CombinedOutput()
	if err != nil {
		infra("instrumenting the working tree failed: %v\n%s", err, outb)
	}
	mod, _ := os.ReadFile(filepath.Join(verifDir, "harness/go.mod"))
	mod = bytes.ReplaceAll(mod, []byte("/nonexistent/set-by-verifctl"), []byte(filepath.Join(scratch, "lsp")))
	mod = bytes.ReplaceAll(mod, []byte("=> /verif/simrt"), []byte("=> "+filepath.Join(verifDir, "simrt")))
	os.WriteFile(filepath.Join(scratch, "harness.mod"), mod, 0644)
	sum, _ := os.ReadFile(filepath.Join(verifDir, "harness/go.sum"))
	os.WriteFile(filepath.Join(scratch, "harness.sum"), sum, 0644)
	worker = compileWorker("worker.test", race)
	b, _ := os.ReadFile(filepath.Join(scratch, "simgen-stats.json"))
	json.Unmarshal(b, &simgenStats)
	return
}

// compileWorker compiles the harness against the instrumented copy in the scratch directory.
func compileWorker(name string, race bool) string {
	worker := filepath.Join(scratch, name)
	args := []string{"test", "-c", "-vet=off", "-modfile=" + filepath.Join(scratch, "harness.mod"), "-o", worker}
	if race {
		args = append(args, "-race")
	}
	args = append(args, ".")
	cmd := exec.Command(filepath.Join(goBin, "go"), args...)
	cmd.Dir = filepath.Join(verifDir, "harness")
	cmd.Env = env()
	outb, err := cmd.CombinedOutput()
	if err != nil {
		infra("building the worker failed: %v\n%s", err, outb)
	}
	return worker
}

// raceClass: violation classes that only the race-detector build of the worker can observe.
func raceClass(prop, class string) bool {
	return prop == "C10" || class == "concurrent-map-access"
}

// raceShare: properties whose exploration gives a share of the worker slots to a second,
// race-detector build of the same worker (every fourth slot).
func raceShare(prop string) bool { return prop == "C01" }

// runWorker runs one worker process on a job and streams its result lines.  It returns how the
// process ended: "done", "crash" (with stderr tail), "hang" (with site/stack).
type workerEnd struct {
	kind   string
	stderr string
	hang   map[string]interface{}
	last   string // last BEGIN payload
}

func runWorker(worker string, job Job, race bool, onResult func(ResultLine)) workerEnd {
	jf, _ := os.CreateTemp(scratch, "job-*.json")
	b, _ := json.Marshal(job)
	jf.Write(b)
	jf.Close()
	defer os.Remove(jf.Name())
	cmd := exec.Command(worker, "-test.run", "^TestWorker$", "-test.timeout", "0")
	cmd.Dir = scratch
	cmd.Env = append(os.Environ(), "VERIF_JOB="+jf.Name(), "GOMAXPROCS=2", "GOTRACEBACK=all")
	if race {
		cmd.Env = append(cmd.Env, "GORACE=halt_on_error=0 log_path="+jf.Name()+".race", "VERIF_RACE_LOG="+jf.Name()+".race")
		defer func() {
			if ms, _ := filepath.Glob(jf.Name() + ".race.*"); ms != nil {
				for _, m := range ms {
					os.Remove(m)
				}
			}
		}()
	}
	var stderr bytes.Buffer
	cmd.Stderr = &stderr
	pipe, _ := cmd.StdoutPipe()
	if err := cmd.Start(); err != nil {
		infra("starting worker: %v", err)
	}
	// safety net: no worker may outlive a generous bound (the in-process watchdog handles CPU
	// loops; this handles a process that is blocked without burning CPU)
	limit := time.Duration(300+60*(len(job.Seeds)+len(job.Replays))) * time.Second
	timedOut := false
	killer := time.AfterFunc(limit, func() { timedOut = true; cmd.Process.Kill() })
	defer killer.Stop()
	end := workerEnd{kind: "crash"}
	var tail []string
	rd := bufio.NewReaderSize(pipe, 1<<20)
	for {
		line, err := rd.ReadString('\n')
		if len(line) > 0 {
			switch {
			case strings.HasPrefix(line, "@@BEGIN "):
				end.last = strings.TrimSpace(line[8:])
			case strings.HasPrefix(line, "@@RESULT "):
				var rl ResultLine
				if e := unmarshalNum([]byte(line[9:]), &rl); e == nil && rl.Verdict != nil {
					onResult(rl)
				}
				end.last = ""
			case strings.HasPrefix(line, "@@HANG "):
				json.Unmarshal([]byte(line[7:]), &end.hang)
				end.kind = "hang"
			case strings.HasPrefix(line, "@@DONE"):
				end.kind = "done"
			default:
				tail = append(tail, line)
				if len(tail) > 400 {
					tail = tail[200:]
				}
			}
		}
		if err != nil {
			break
		}
	}
	cmd.Wait()
	if timedOut {
		infra("a worker process did not finish within %v (blocked without progress, last run: %s)", limit, end.last)
	}
	end.stderr = stderr.String() + strings.Join(tail, "")
	return end
}

var panicRe = regexp.MustCompile(`(?m)^(panic: .*|fatal error: .*|runtime: goroutine stack exceeds.*)$`)
var frameRe = regexp.MustCompile(`(?m)^(luahelper-lsp/[^\s(]+(?:\([^)]*\))?[^\s(]*)\(`)

// crashSignature extracts "panic class + innermost in-repo function".
func crashSignature(stderr string) (sig, detail string) {
	msg := "process died"
	if m := panicRe.FindString(stderr); m != "" {
		msg = m
	}
	class := msg
	if i := strings.Index(class, ":"); i > 0 {
		rest := strings.TrimSpace(class[i+1:])
		// keep the error kind, drop addresses / indexes
		rest = regexp.MustCompile("`[^`]*`").ReplaceAllString(rest, "`#`") // user data quoted in the message
		rest = regexp.MustCompile(`\[[^\]]*\]|0x[0-9a-f]+|\d+`).ReplaceAllString(rest, "#")
		if len(rest) > 80 {
			rest = rest[:80]
		}
		class = class[:i] + ": " + rest
	}
	fn := "?"
	// the first repo frame after the panic line of the crashing goroutine
	idx := strings.Index(stderr, msg)
	if idx >= 0 {
		if m := frameRe.FindStringSubmatch(stderr[idx:]); m != nil {
			fn = m[1]
		}
	}
	if strings.Contains(msg, "stack exceeds") || strings.Contains(stderr, "stack overflow") {
		class = "fatal error: stack overflow"
		// unbounded (mutual) recursion: the frame that happens to hit the limit varies; the set of
		// functions on the cycle does not
		if i := strings.Index(stderr, "goroutine "); i >= 0 {
			seen := map[string]bool{}
			var cyc []string
			for k, m := range frameRe.FindAllStringSubmatch(stderr[i:], 60) {
				if k >= 60 {
					break
				}
				if !seen[m[1]] {
					seen[m[1]] = true
					cyc = append(cyc, m[1][strings.LastIndex(m[1], "/")+1:])
				}
			}
			sort.Strings(cyc)
			if len(cyc) > 0 {
				fn = "cycle{" + strings.Join(cyc, ",") + "}"
			}
		}
	}
	return class + " @ " + fn, clipTail(stderr, 3000)
}

func clipTail(s string, n int) string {
	if i := strings.Index(s, "panic:"); i >= 0 {
		s = s[i:]
	} else if i := strings.Index(s, "fatal error:"); i >= 0 {
		s = s[i:]
	}
	if len(s) > n {
		return s[:n]
	}
	return s
}

func loadFindings() []Finding {
	var fs []Finding
	if os.Getenv("VERIF_NO_KNOWN") != "" {
		return nil // triage aid: treat listed findings as ordinary violations (minimise them)
	}
	b, err := os.ReadFile(filepath.Join(verifDir, "known_findings.json"))
	if err != nil {
		return nil
	}
	if err := json.Unmarshal(b, &fs); err != nil {
		infra("known_findings.json: %v", err)
	}
	return fs
}

func matchKnown(fs []Finding, prop, class, sig string) *Finding {
	for i := range fs {
		f := &fs[i]
		if f.Property != prop || f.Status != "known" {
			continue
		}
		if f.Class != "" && f.Class != class {
			continue
		}
		if f.Signature == sig {
			return f
		}
	}
	return nil
}

type aggregate struct {
	mu          sync.Mutex
	evals       int
	runs        int
	steps       int
	simMs       int64
	fired       map[string]int
	probes      map[string]int
	sites       map[string]int
	traces      map[string]bool
	shapes      map[string]bool
	uncontrolled map[string]int
	ambiguous   int
	samples     []map[string]interface{}
	invalid     int
	violations  []Violation
	wallMs      int64
}

func newAgg() *aggregate {
	return &aggregate{fired: map[string]int{}, probes: map[string]int{}, sites: map[string]int{}, traces: map[string]bool{}, shapes: map[string]bool{}, uncontrolled: map[string]int{}}
}

func (a *aggregate) probe(name string) {
	a.mu.Lock()
	a.probes[name]++
	a.mu.Unlock()
}

func (a *aggregate) add(rl ResultLine) {
	a.mu.Lock()
	defer a.mu.Unlock()
	v := rl.Verdict
	a.evals++
	a.runs += v.Runs
	a.steps += v.Steps
	a.simMs += v.SimMillis
	a.wallMs += rl.WallMs
	for k, n := range v.Fired {
		a.fired[k] += n
	}
	for k, n := range v.Probes {
		a.probes[k] += n
	}
	for k, n := range v.Sites {
		a.sites[k] += n
	}
	for k, n := range v.Uncontrolled {
		a.uncontrolled[k] += n
	}
	a.ambiguous += v.Ambiguous
	for _, t := range v.Traces {
		a.traces[t] = true
	}
	if v.Invalid {
		a.invalid++
	}
	if v.NonTrivial && v.Shape != "" {
		a.shapes[v.Shape] = true
	}
	if rl.Sample != nil && len(a.samples) < 3 {
		a.samples = append(a.samples, rl.Sample)
	}
	if !v.OK && !v.Invalid {
		a.violations = append(a.violations, Violation{rl.Seed, v.Class, v.Signature, v.Detail, v.Scenario})
	}
}

func main() {
	if len(os.Args) < 3 {
		fmt.Fprintln(os.Stderr, "usage: verifctl check|replay <PROP> ...")
		os.Exit(2)
	}
	if d := os.Getenv("VERIF_DIR"); d != "" {
		verifDir = d
	}
	if d := os.Getenv("VERIF_REPO"); d != "" {
		repoDir = d
	}
	mode, prop := os.Args[1], os.Args[2]
	fs := flag.NewFlagSet("verifctl", flag.ExitOnError)
	tier := fs.String("tier", envOr("VERIF_TIER", "quick"), "quick|thorough")
	budget := fs.Int("budget", 0, "seconds of exploration (0 = tier default)")
	workers := fs.Int("workers", 16, "worker processes")
	maxSeeds := fs.Int("max-seeds", 0, "stop after this many seeds (0 = budget only)")
	noMin := fs.Bool("no-minimise", false, "report violations without minimising")
	seedList := fs.String("seeds", "", "comma-separated explicit seeds (instead of the VERIF_SEED-derived range)")
	fs.Parse(os.Args[3:])
	seed, _ := strconv.ParseInt(envOr("VERIF_SEED", "1"), 10, 64)
	race := prop == "C10" || os.Getenv("VERIF_FORCE_RACE") != "" // VERIF_FORCE_RACE: diagnostic runs only
	switch mode {
	case "check":
		for _, x := range strings.Split(*seedList, ",") {
			if n, err := strconv.ParseInt(strings.TrimSpace(x), 10, 64); err == nil {
				explicitSeeds = append(explicitSeeds, n)
			}
		}
		os.Exit(check(prop, *tier, seed, *budget, *workers, *maxSeeds, race, *noMin))
	case "det":
		n := *maxSeeds
		if n == 0 {
			n = 200
		}
		os.Exit(detSelfTest(prop, n, race, seed))
	case "replay":
		if fs.NArg() < 1 {
			infra("replay needs a file")
		}
		os.Exit(replay(prop, fs.Arg(0), race))
	case "dump":
		// debugging aid: run a scenario file once and write its diagnostics and answers to <file>.dump
		if fs.NArg() < 1 {
			infra("dump needs a file")
		}
		worker, _ := build(false)
		abs, _ := filepath.Abs(fs.Arg(0))
		runWorker(worker, Job{Prop: prop, Mode: "dump", Replays: []string{abs}, HangSec: 60}, false, func(ResultLine) {})
		cleanup()
		os.Exit(0)
	default:
		infra("unknown mode %s", mode)
	}
}

func envOr(k, d string) string {
	if v := os.Getenv(k); v != "" {
		return v
	}
	return d
}

func tierBudget(prop, tier string) int {
	if tier == "thorough" {
		return 900
	}
	if prop == "C01" {
		// the broadest input space (and a quarter of its workers run the slower race build)
		return 120
	}
	return 75
}

func check(prop, tier string, seed int64, budget, workers, maxSeeds int, race, noMin bool) int {
	t0 := time.Now()
	worker, sgStats := build(race)
	defer cleanup()
	workerRace := worker
	if raceShare(prop) {
		workerRace = compileWorker("worker-race.test", true)
	}
	// pick returns the worker binary (and whether it is the race build) that can observe a class
	pick := func(class string) (string, bool) {
		if raceClass(prop, class) {
			return workerRace, true
		}
		return worker, race
	}
	buildS := time.Since(t0).Seconds()
	if budget == 0 {
		budget = tierBudget(prop, tier)
	}
	fmt.Printf("verifctl: property=%s tier=%s VERIF_SEED=%d workers=%d budget=%ds build=%.1fs\n", prop, tier, seed, workers, budget, buildS)
	// regression phase: every recorded scenario of this property (the replay of each defect that was
	// found and repaired, and of each corrected false alarm) must hold on the tree under test
	regressExit, regressRun := 0, 0
	if os.Getenv("VERIF_NO_REGRESS") == "" {
		files, _ := filepath.Glob(filepath.Join(verifDir, "regress", prop+"-*.json"))
		sort.Strings(files)
		type rres struct {
			file string
			v    *Verdict
		}
		out := make([]rres, len(files))
		var rwg sync.WaitGroup
		sem := make(chan struct{}, workers)
		for i, f := range files {
			rwg.Add(1)
			go func(i int, f string) {
				defer rwg.Done()
				sem <- struct{}{}
				defer func() { <-sem }()
				b, err := os.ReadFile(f)
				if err != nil {
					return
				}
				var sc map[string]interface{}
				d := json.NewDecoder(bytes.NewReader(b))
				d.UseNumber()
				if d.Decode(&sc) != nil {
					return
				}
				exp, _ := sc["expect"].(string)
				w, r := pick(exp)
				out[i] = rres{f, evalScenario(w, prop, sc, r, 20)}
			}(i, f)
		}
		rwg.Wait()
		findings := loadFindings()
		for _, r := range out {
			if r.v == nil {
				continue
			}
			regressRun++
			if r.v.OK || r.v.Invalid || matchKnown(findings, prop, r.v.Class, r.v.Signature) != nil {
				continue
			}
			fmt.Printf("violation class=%s signature=%q (recorded scenario %s fails again)\n  %s\n", r.v.Class, r.v.Signature, filepath.Base(r.file), oneLine(r.v.Detail, 600))
			fmt.Printf("VIOLATION property=%s replay=%s\n", prop, r.file)
			regressExit = 1
		}
		fmt.Printf("verifctl: %d recorded scenarios replayed\n", regressRun)
		if regressExit != 0 && os.Getenv("VERIF_STOP_FIRST") != "" {
			return regressExit // self-test sweeps only ask whether anything is found
		}
	}
	agg := newAgg()
	for i := 0; i < regressRun; i++ {
		agg.probe("regress.recorded-scenarios-replayed")
	}
	deadline := time.Now().Add(time.Duration(budget) * time.Second)
	stopFirst := os.Getenv("VERIF_STOP_FIRST") != "" // stop exploring at the first violation (self-tests)
	stopFindings := loadFindings()
	var next int64
	var nmu sync.Mutex
	batch := 20
	takeBatch := func() []int64 {
		nmu.Lock()
		defer nmu.Unlock()
		if explicitSeeds != nil {
			if next > 0 {
				return nil
			}
			next = 1
			return explicitSeeds
		}
		if time.Now().After(deadline) || (maxSeeds > 0 && int(next) >= maxSeeds) {
			return nil
		}
		var s []int64
		for i := 0; i < batch; i++ {
			if maxSeeds > 0 && int(next) >= maxSeeds {
				break
			}
			s = append(s, seed*1000003+next)
			next++
		}
		return s
	}
	var hangSeeds, crashSeeds []int64
	var crashErr = map[int64]string{}
	var wg sync.WaitGroup
	sampled := false
	for w := 0; w < workers; w++ {
		wg.Add(1)
		go func(w int) {
			defer wg.Done()
			for {
				seeds := takeBatch()
				if seeds == nil {
					return
				}
				for len(seeds) > 0 {
					job := Job{Prop: prop, Mode: "explore", Tier: tier, Seeds: seeds}
					nmu.Lock()
					if !sampled {
						job.Full = true
						sampled = true
					}
					nmu.Unlock()
					done := map[int64]bool{}
					wk, wrace := worker, race
					if raceShare(prop) && w%4 == 3 {
						wk, wrace = workerRace, true
						agg.probe("race-build.worker-batches")
					}
					end := runWorker(wk, job, wrace, func(rl ResultLine) {
						done[rl.Seed] = true
						agg.add(rl)
						if stopFirst && rl.Verdict != nil && !rl.Verdict.OK && !rl.Verdict.Invalid && matchKnown(stopFindings, prop, rl.Verdict.Class, rl.Verdict.Signature) == nil {
							// sensitivity sweeps only ask whether anything is found: stop handing out seeds
							nmu.Lock()
							deadline = time.Now()
							nmu.Unlock()
						}
					})
					if end.kind == "done" {
						// the worker may have stopped early after a violation: hand the rest of the
						// batch to a fresh process
						var rest []int64
						for _, s := range seeds {
							if !done[s] {
								rest = append(rest, s)
							}
						}
						if len(rest) == 0 || len(rest) == len(seeds) {
							break
						}
						seeds = rest
						continue
					}
					// find the seed that was in progress
					var cur int64 = -1
					var m map[string]interface{}
					if unmarshalNum([]byte(end.last), &m) == nil {
						if f, ok := m["seed"].(json.Number); ok {
							cur, _ = f.Int64()
						}
					}
					if cur < 0 {
						infra("worker ended (%s) outside a run:\n%s", end.kind, clipTail(end.stderr, 4000))
					}
					nmu.Lock()
					if stopFirst {
						deadline = time.Now()
					}
					if end.kind == "hang" {
						hangSeeds = append(hangSeeds, cur)
					} else {
						crashSeeds = append(crashSeeds, cur)
						crashErr[cur] = end.stderr
					}
					nmu.Unlock()
					var rest []int64
					for _, s := range seeds {
						if !done[s] && s != cur {
							rest = append(rest, s)
						}
					}
					seeds = rest
				}
			}
		}(w)
	}
	wg.Wait()
	exploreS := time.Since(t0).Seconds() - buildS

	// materialise crashing / hanging seeds into scenarios and confirm them in fresh processes
	for _, s := range crashSeeds {
		sc := genScenario(worker, prop, tier, s, race)
		sig, detail := crashSignature(crashErr[s])
		if isInfraCrash(crashErr[s]) {
			infra("worker died for a reason that is not the server's doing (seed %d):\n%s", s, clipTail(crashErr[s], 3000))
		}
		agg.violations = append(agg.violations, Violation{s, "crash", sig, detail, sc})
	}
	for _, s := range hangSeeds {
		sc := genScenario(worker, prop, tier, s, race)
		// confirm with 4x the watchdog budget
		v := evalScenario(worker, prop, sc, race, 80)
		if v.Class == "hang" {
			agg.violations = append(agg.violations, Violation{s, "hang", v.Signature, v.Detail, sc})
		} else if !v.OK && !v.Invalid {
			agg.violations = append(agg.violations, Violation{s, v.Class, v.Signature, v.Detail, sc})
		} else {
			fmt.Printf("verifctl: seed %d exceeded the 20 s watchdog once but completed with 4x budget; not a violation\n", s)
			agg.probes["watchdog.slow-but-finished"]++
		}
	}

	findings := loadFindings()
	// group violations by (class, signature)
	type group struct {
		v     Violation
		count int
	}
	groups := map[string]*group{}
	var order []string
	for _, v := range agg.violations {
		k := v.Class + "|" + v.Signature
		if g, ok := groups[k]; ok {
			g.count++
			continue
		}
		groups[k] = &group{v, 1}
		order = append(order, k)
	}
	sort.Strings(order)
	exit := 0
	reported := 0
	var knownLines []string
	for i := range findings {
		f := &findings[i]
		if f.Property != prop || f.Status != "known" || f.Replay == "" {
			continue
		}
		b, err := os.ReadFile(filepath.Join(verifDir, f.Replay))
		if err != nil {
			infra("known finding replay %s: %v", f.Replay, err)
		}
		var fsc map[string]interface{}
		fd := json.NewDecoder(bytes.NewReader(b))
		fd.UseNumber()
		if err := fd.Decode(&fsc); err != nil {
			infra("known finding replay %s: %v", f.Replay, err)
		}
		fw, fr := pick(f.Class)
		fv := evalScenario(fw, prop, fsc, fr, 20)
		if fv == nil || fv.OK || fv.Invalid {
			continue // the recorded history holds now
		}
		if fv.Class == f.Class && fv.Signature == f.ReplaySignature {
			line := fmt.Sprintf("KNOWN-FINDING: property=%s %s [recorded history %s still fails: %s]", prop, f.What, f.Replay, fv.Signature)
			fmt.Println(line)
			knownLines = append(knownLines, line)
			continue
		}
		// it fails in another way than recorded: that is not the listed finding
		fmt.Printf("violation class=%s signature=%q (history %s, recorded for a known finding, fails differently)\n  %s\n", fv.Class, fv.Signature, f.Replay, oneLine(fv.Detail, 600))
		fmt.Printf("VIOLATION property=%s replay=%s\n", prop, filepath.Join(verifDir, f.Replay))
		exit = 1
	}
	for _, k := range order {
		g := groups[k]
		if f := matchKnown(findings, prop, g.v.Class, g.v.Signature); f != nil {
			line := fmt.Sprintf("KNOWN-FINDING: property=%s %s [%s; seen %d times, e.g. seed %d]", prop, f.What, g.v.Signature, g.count, g.v.Seed)
			fmt.Println(line)
			knownLines = append(knownLines, line)
			continue
		}
		reported++
		if reported > 5 {
			fmt.Printf("verifctl: further violation group not minimised: %s (%d times)\n", k, g.count)
			continue
		}
		sc := g.v.Scenario
		if sc == nil {
			infra("violation without scenario: %s", k)
		}
		// confirm in a fresh process before spending time on it
		vworker, vrace := pick(g.v.Class)
		v0 := evalScenario(vworker, prop, sc, vrace, 20)
		if vrace {
			// what the race detector reports depends on its shadow memory, not only on the schedule:
			// give a race a few fresh processes to show again
			for try := 0; try < 4 && !sameViolation(v0, g.v.Class, g.v.Signature); try++ {
				v0 = evalScenario(vworker, prop, sc, vrace, 20)
			}
		}
		if !sameViolation(v0, g.v.Class, g.v.Signature) {
			if vrace {
				// a race report is evidence by itself (the detector has no false positives); it is
				// reported with the scenario that produced it although it does not replay on demand
				fmt.Fprintf(os.Stderr, "verifctl: race %q of seed %d was reported while exploring but did not show again in 5 fresh processes; reported without minimisation\n", k, g.v.Seed)
				sc["expect"] = g.v.Class
				sc["expect_signature"] = g.v.Signature
				sc["detail"] = g.v.Detail
				path := writeReplay(prop, g.v.Class, g.v.Signature, sc)
				fmt.Printf("violation class=%s signature=%q seeds=%d first-seed=%d (intermittent under the race detector)\n  %s\n", g.v.Class, g.v.Signature, g.count, g.v.Seed, oneLine(g.v.Detail, 600))
				fmt.Printf("VIOLATION property=%s replay=%s\n", prop, path)
				exit = 1
				continue
			}
			if v0 != nil && !v0.OK && v0.Class == g.v.Class && strings.Contains(g.v.Signature, "stack overflow") && strings.Contains(v0.Signature, "stack overflow") {
				// the cycle of a runaway recursion is named from samples of the stack; which functions of
				// the cycle all samples contain can differ between two runs of the same recursion. Same
				// class, same kind of crash: the violation reproduces, under the signature of this run
				g.v.Signature = v0.Signature
			} else {
				infra("violation %q of seed %d did not reproduce in a fresh process (got ok=%v class=%q sig=%q): the simulation is not deterministic for this case", k, g.v.Seed, v0.OK, v0.Class, v0.Signature)
			}
		}
		if v0.Scenario != nil {
			sc = v0.Scenario
		}
		unminimised := sc
		if !noMin {
			minBudget := 45 * time.Second
			if tier == "thorough" {
				minBudget = 240 * time.Second
			}
			sc = minimise(vworker, prop, sc, g.v.Class, g.v.Signature, vrace, workers, minBudget)
		}
		// the minimised file must fail identically twice in fresh processes
		stable := func(sc map[string]interface{}) (*Verdict, bool) {
			ok := true
			var last, lastBad *Verdict
			for i := 0; i < 2; i++ {
				last = evalScenario(vworker, prop, sc, vrace, 20)
				if !sameViolation(last, g.v.Class, g.v.Signature) {
					ok = false
				} else {
					lastBad = last
				}
			}
			if lastBad != nil {
				last = lastBad
			}
			return last, ok
		}
		last, ok := stable(sc)
		if !ok && vrace {
			// Race reports come from the race detector's shadow memory, which the simulator does not
			// control: a minimised scenario can fail intermittently.  Fall back to the un-minimised
			// scenario, which failed in the exploring process and again in a fresh one.
			fmt.Fprintf(os.Stderr, "verifctl: minimised replay of %q fails only intermittently; reporting the un-minimised scenario\n", k)
			sc = unminimised
			var ok2 bool
			if last, ok2 = stable(sc); !ok2 {
				fmt.Fprintf(os.Stderr, "verifctl: the un-minimised replay also fails only intermittently (race detector); it failed in the exploring process and in a fresh one\n")
				if !sameViolation(last, g.v.Class, g.v.Signature) {
					last = v0
				}
			}
			ok = true
		}
		if !ok {
			infra("minimised replay of %q does not fail identically twice", k)
		}
		sc["expect"] = g.v.Class
		sc["expect_signature"] = g.v.Signature
		sc["detail"] = last.Detail
		path := writeReplay(prop, g.v.Class, g.v.Signature, sc)
		fmt.Printf("violation class=%s signature=%q seeds=%d first-seed=%d\n  %s\n", g.v.Class, g.v.Signature, g.count, g.v.Seed, oneLine(last.Detail, 600))
		fmt.Printf("VIOLATION property=%s replay=%s\n", prop, path)
		exit = 1
	}
	if regressExit != 0 {
		exit = 1
	}
	writeEvidence(prop, tier, seed, agg, sgStats, time.Since(t0).Seconds(), buildS, exploreS, len(order)-len(knownLines)+regressExit, knownLines, workers, race)
	if agg.evals == 0 && exit == 0 && len(knownLines) == 0 {
		infra("no scenario was evaluated")
	}
	fmt.Printf("verifctl: %d scenarios, %d simulated runs, %d scheduler steps, %d distinct interleavings, %.0f runs/hour, exit %d\n", agg.evals, agg.runs, agg.steps, len(agg.traces), float64(agg.runs)/exploreS*3600, exit)
	return exit
}

// sameViolation: a replay must fail with the same class and signature.  Race reports are the
// one exception: which of several conflicting access pairs ThreadSanitizer reports first depends
// on its (pseudo-random) shadow-cell eviction, so for the data-race class any race report of the
// server counts as the same violation.
func sameViolation(v *Verdict, class, sig string) bool {
	if v == nil || v.OK || v.Invalid {
		return false
	}
	if class == "c10-data-race" || class == "concurrent-map-access" {
		return v.Class == class
	}
	if class == "c10-not-serialisable" && v.Class == "c10-data-race" {
		// the race detector reports a given pair of stacks once per process: a long-lived worker that
		// has already reported the race sees only its consequence (an unserialisable answer), a fresh
		// process sees the race first.  Same defect.
		return true
	}
	return v.Class == class && v.Signature == sig
}

func oneLine(s string, n int) string {
	s = strings.ReplaceAll(s, "\n", " ⏎ ")
	if len(s) > n {
		s = s[:n] + "…"
	}
	return s
}

func isInfraCrash(stderr string) bool {
	for _, s := range []string{"out of memory", "cannot allocate memory", "signal: killed", "no space left"} {
		if strings.Contains(stderr, s) {
			return true
		}
	}
	return false
}

// genScenario asks a worker to materialise the scenario of a seed.
func genScenario(worker, prop, tier string, seed int64, race bool) map[string]interface{} {
	jf, _ := os.CreateTemp(scratch, "gen-*.json")
	b, _ := json.Marshal(Job{Prop: prop, Mode: "gen", Tier: tier, Seeds: []int64{seed}})
	jf.Write(b)
	jf.Close()
	defer os.Remove(jf.Name())
	cmd := exec.Command(worker, "-test.run", "^TestWorker$")
	cmd.Dir = scratch
	cmd.Env = append(os.Environ(), "VERIF_JOB="+jf.Name())
	outb, err := cmd.Output()
	if err != nil {
		infra("gen seed %d: %v", seed, err)
	}
	for _, line := range strings.Split(string(outb), "\n") {
		if strings.HasPrefix(line, "@@SCENARIO ") {
			var m map[string]interface{}
			d := json.NewDecoder(strings.NewReader(line[11:]))
			d.UseNumber()
			if d.Decode(&m) == nil {
				return m
			}
		}
	}
	infra("gen seed %d: no scenario in output", seed)
	return nil
}

// evalScenario checks one scenario in a fresh worker process.  Crashes and hangs become
// verdicts of class crash / hang.
func evalScenario(worker, prop string, sc map[string]interface{}, race bool, hangSec int) *Verdict {
	f, _ := os.CreateTemp(scratch, "cand-*.json")
	b, _ := json.Marshal(sc)
	f.Write(b)
	f.Close()
	defer os.Remove(f.Name())
	var got *Verdict
	end := runWorker(worker, Job{Prop: prop, Mode: "replay", Replays: []string{f.Name()}, HangSec: hangSec}, race, func(rl ResultLine) { got = rl.Verdict })
	switch end.kind {
	case "done":
		if got == nil {
			infra("replay produced no verdict")
		}
		return got
	case "hang":
		site, _ := end.hang["site"].(string)
		stack, _ := end.hang["stack"].(string)
		fn := "?"
		if m := frameRe.FindStringSubmatch(stack); m != nil {
			fn = m[1]
		}
		_ = site
		return &Verdict{Class: "hang", Signature: "no scheduling point reached for " + strconv.Itoa(hangSec) + "s (CPU loop) @ " + hangFrame(stack, fn), Detail: stack}
	default:
		if isInfraCrash(end.stderr) {
			infra("worker died: %s", clipTail(end.stderr, 2000))
		}
		sig, detail := crashSignature(end.stderr)
		return &Verdict{Class: "crash", Signature: sig, Detail: detail}
	}
}

// hangFrame picks a stable function for a hang signature: the outermost repo frame that is not
// dispatcher plumbing is too coarse, the innermost is unstable inside a loop; use the innermost
// frame's package-level function name without the line.
func hangFrame(stack, fn string) string { return fn }

func outDir() string {
	if d := os.Getenv("VERIF_OUT"); d != "" {
		return d
	}
	return verifDir
}

func writeReplay(prop, class, sig string, sc map[string]interface{}) string {
	dir := filepath.Join(outDir(), "replays")
	os.MkdirAll(dir, 0755)
	h := sha256.Sum256([]byte(class + "|" + sig))
	path := filepath.Join(dir, fmt.Sprintf("%s-%s-%x.json", prop, sanitize(class), h[:4]))
	b, _ := json.MarshalIndent(sc, "", " ")
	os.WriteFile(path, b, 0644)
	return path
}

func sanitize(s string) string {
	return regexp.MustCompile(`[^A-Za-z0-9_-]+`).ReplaceAllString(s, "_")
}

func replay(prop, file string, race bool) int {
	b, err := os.ReadFile(file)
	if err != nil {
		infra("%v", err)
	}
	var sc map[string]interface{}
	d := json.NewDecoder(bytes.NewReader(b))
	d.UseNumber()
	if err := d.Decode(&sc); err != nil {
		infra("%v", err)
	}
	if exp, _ := sc["expect"].(string); raceClass(prop, exp) {
		race = true // the recorded violation is one only the race-detector build observes
	}
	worker, _ := build(race)
	defer cleanup()
	v := evalScenario(worker, prop, sc, race, 20)
	if v.OK || v.Invalid {
		fmt.Printf("replay: property %s holds on %s\n", prop, file)
		return 0
	}
	fmt.Printf("replay: class=%s signature=%q\n%s\n", v.Class, v.Signature, v.Detail)
	if f := matchKnown(loadFindings(), prop, v.Class, v.Signature); f != nil {
		fmt.Printf("KNOWN-FINDING: property=%s %s\n", prop, f.What)
		return 0
	}
	fmt.Printf("VIOLATION property=%s replay=%s\n", prop, file)
	return 1
}
