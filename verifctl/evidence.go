package main

import (
	"encoding/json"
	"os"
	"path/filepath"
	"sort"
	"strings"
)

var rules = map[string]string{
	"C01": "each evaluation = one generated workspace (valid / mutated / raw-byte Lua, hostile annotations, luahelper.json variants) + a conformant message script with position sweeps, run under a drawn schedule with drawn faults (disk read faults, watcher anomalies, UDP faults, cancellation, connection close); non-trivial = the server analysed at least one file and answered at least one request; distinct = distinct (files, ops, outcome-hash) shape",
	"C02": "each evaluation = one generated document (ASCII/BMP/astral, LF/CRLF/CR) + edit history (incremental, batched, full replacement, save/close/reopen, in-flight queries, watcher events); after every notification the server's buffer is compared with the reference UTF-16 text model; non-trivial = at least 3 applied edits; distinct = distinct final text + history length",
	"C08": "each evaluation = one generated workspace (variant library) + a history of world/create/modify/delete, open/change/save/close, watcher deliveries and queries, compared at clean points (and the final point) with a fresh server on the same disk, both under the canonical schedule; non-trivial = history changed the disk or a buffer at least twice; distinct = distinct history shape + final view hash",
	"C09": "each evaluation = one generated workspace + message script executed under K seeded schedules (goroutine interleaving policy, pool width 1..20, select poll order, map-iteration permutation); non-trivial = the K runs took at least 2 distinct interleavings and produced diagnostics or answers; distinct = distinct (files, ops, view/answer hash)",
	"C10": "each evaluation = one small valid workspace + a burst of 2-5 in-flight messages interleaved by the seeded scheduler, built with -race; oracles: race reports in server code, crash/deadlock, and every answer explained by some sequential order (all permutations run sequentially on the real code); non-trivial = at least two handlers were in flight simultaneously; distinct = distinct burst shape + interleaving hash",
	"C17": "each evaluation = one diagnostic-rich workspace + a configuration (flag subset, ignore lists, per-file type rules) delivered as init options, later settings change and luahelper.json, with change histories and config-file read faults; oracles: channel equivalence, equals-fresh, filter relation to the all-enabled view, liveness on malformed settings; distinct = distinct configuration + view hash",
	"C18": "each evaluation = one generated module tree (nested, duplicate-named, init.lua, .so) + require/dofile strings, queried before and after create/delete events; oracles: type-6 <=> no definition <=> no hover target, target in the documented candidate set, equals fresh server; distinct = distinct tree + module-string set",
}

func sortedTop(m map[string]int, n int) map[string]int {
	type kv struct {
		k string
		v int
	}
	var kvs []kv
	for k, v := range m {
		kvs = append(kvs, kv{k, v})
	}
	sort.Slice(kvs, func(i, j int) bool { return kvs[i].v > kvs[j].v || (kvs[i].v == kvs[j].v && kvs[i].k < kvs[j].k) })
	out := map[string]int{}
	for i, e := range kvs {
		if i >= n {
			break
		}
		out[e.k] = e.v
	}
	return out
}

func writeEvidence(prop, tier string, seed int64, a *aggregate, sg map[string]interface{}, wall, buildS, exploreS float64, unknownViolations int, known []string, workers int, race bool) {
	// yield-site coverage: sites reached / sites instrumented
	instrumented := 0
	if counts, ok := sg["counts"].(map[string]interface{}); ok {
		for _, k := range []string{"go", "lock", "send", "recv", "select", "handler", "wgwait", "range-chan", "sleep"} {
			if f, ok := counts[k].(float64); ok {
				instrumented += int(f)
			}
		}
	}
	reachedSites := map[string]bool{}
	fnReached, fsReached := 0, 0
	for s := range a.sites {
		if strings.HasPrefix(s, "fn:") {
			fnReached++ // optional function-entry scheduling points (a per-run subset is switched on)
			continue
		}
		if strings.HasPrefix(s, "fs:") {
			fsReached++ // read-side file-system calls as scheduling points
			continue
		}
		// normalise "sent@x" / "send@x" etc. to the source site
		if i := strings.Index(s, "@"); i >= 0 {
			reachedSites[s[i+1:]] = true
		} else {
			reachedSites[s] = true
		}
	}
	samples := []interface{}{}
	for _, s := range a.samples {
		// trim bulky tapes from samples
		if sch, ok := s["scheds"].([]interface{}); ok {
			for _, x := range sch {
				if m, ok := x.(map[string]interface{}); ok {
					delete(m, "tape")
				}
			}
		}
		samples = append(samples, s)
	}
	if len(samples) == 0 {
		samples = append(samples, "no sample captured")
	}
	faults := map[string]int{}
	for k, v := range a.fired {
		faults[k] = v
	}
	cov := map[string]interface{}{
		"evaluations":                  a.evals,
		"distinct_nontrivial":          len(a.shapes),
		"rule":                         rules[prop],
		"samples":                      samples,
		"simulated_runs":               a.runs,
		"runs_per_hour":                int(float64(a.runs) / exploreS * 3600),
		"scenarios_per_hour":           int(float64(a.evals) / exploreS * 3600),
		"simulated_seconds":            float64(a.simMs) / 1000,
		"scheduler_steps":              a.steps,
		"distinct_interleavings":       len(a.traces),
		"interleaving_measure":         "distinct FNV hashes of the full (goroutine id, scheduling site) release sequence of a run",
		"fault_kinds_fired":            faults,
		"probes":                       a.probes,
		"yield_sites_reached":          len(reachedSites),
		"yield_sites_instrumented":     instrumented,
		"fn_entry_points_that_yielded": fnReached,
		"fs_call_kinds_that_yielded":   fsReached,
		"top_sites":                    sortedTop(a.sites, 25),
		"uncontrolled_map_ranges":      a.uncontrolled,
		"ambiguous_goroutine_adoptions": a.ambiguous,
		"invalid_scenarios":            a.invalid,
		"instrumentation":              sg["counts"],
		"seeds":                        map[string]interface{}{"VERIF_SEED": seed, "first": seed * 1000003, "count": a.evals},
		"workers":                      workers,
		"race_detector":                race,
		"build_s":                      buildS,
		"explore_s":                    exploreS,
		"known_findings_seen":          known,
		"real_vs_stub": map[string]interface{}{
			"real": []string{"all of luahelper-lsp/langserver/... (instrumented only at go/lock/channel/select/map-range/NumCPU/fs/net/sleep/recover sites)", "github.com/yinfei8/jrpc2 dispatcher (unmodified)", "golang.org/x/sync semaphore", "encoding/json", "regexp", "Go runtime and real goroutines"},
			"stub": []string{"LSP client (model)", "byte transport (in-memory jrpc2 channel.Channel)", "disk (simfs)", "file watcher (model)", "UDP peer (simrt.SimConn)", "clock (testing/synctest fake clock)", "runtime.NumCPU", "which goroutine runs next (simrt scheduler)", "map iteration order"},
			"not_exercised": []string{"main.go flag handling", "TCP listener mode", "pprof endpoint", "log.txt writing", "luahelper-vscode/"},
		},
	}
	ev := map[string]interface{}{
		"property_id": prop,
		"tier":        tier,
		"seed":        seed,
		"level":       "exploration",
		"coverage":    cov,
		"assumptions": []string{
			"sampling, not proof: seeded search over schedules, histories and faults",
			"scheduling points exist at synchronisation operations, channel operations, handler entries and goroutine starts, and (in part of the schedules) at read-side file-system calls and at the entries of a seed-chosen few per mille of the server's functions; inside the remaining windows the race detector (all of C10, a quarter of C01's workers) is the monitor",
			"the instrumented copy is built with Go 1.26.8 (testing/synctest); the shipped binary uses the repository's toolchain",
			"LSP messages are delivered reliably and in order (stdio pipe); no loss/duplication of protocol messages is injected",
		},
		"wall_s":     wall,
		"violations": unknownViolations,
	}
	b, _ := json.MarshalIndent(ev, "", " ")
	os.MkdirAll(filepath.Join(outDir(), "evidence"), 0755)
	os.WriteFile(filepath.Join(outDir(), "evidence", prop+".json"), b, 0644)
}
