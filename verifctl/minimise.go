package main

import (
	"bytes"
	"encoding/json"
	"fmt"
	"os"
	"strings"
	"sync"
	"time"
)

func unmarshalNum(b []byte, v interface{}) error {
	d := json.NewDecoder(bytes.NewReader(b))
	d.UseNumber()
	return d.Decode(v)
}

func cloneSc(sc map[string]interface{}) map[string]interface{} {
	b, _ := json.Marshal(sc)
	var c map[string]interface{}
	unmarshalNum(b, &c)
	return c
}

func arr(sc map[string]interface{}, key string) []interface{} {
	a, _ := sc[key].([]interface{})
	return a
}

// candidates proposes smaller scenarios, most aggressive first.
func candidates(sc map[string]interface{}, round int) []map[string]interface{} {
	var out []map[string]interface{}
	burst, hasBurst := sc["burst"].([]interface{})
	burstFrom, burstTo := -1, -1
	if hasBurst && len(burst) == 2 {
		bf, _ := burst[0].(json.Number)
		bt, _ := burst[1].(json.Number)
		f, _ := bf.Int64()
		t, _ := bt.Int64()
		burstFrom, burstTo = int(f), int(t)
	}
	dropRange := func(key string, from, n int) map[string]interface{} {
		c := cloneSc(sc)
		a := arr(c, key)
		if from+n > len(a) {
			return nil
		}
		c[key] = append(append([]interface{}{}, a[:from]...), a[from+n:]...)
		if key == "ops" && burstFrom >= 0 {
			// keep the burst window consistent
			nf, nt := burstFrom, burstTo
			for i := from; i < from+n; i++ {
				if i < burstFrom {
					nf--
					nt--
				} else if i < burstTo {
					nt--
				}
			}
			if nt-nf < 2 {
				return nil
			}
			c["burst"] = []interface{}{json.Number(fmt.Sprint(nf)), json.Number(fmt.Sprint(nt))}
		}
		return c
	}
	for _, key := range []string{"ops", "files"} {
		n := len(arr(sc, key))
		for chunk := n / 2; chunk >= 1; chunk /= 2 {
			for from := 0; from+chunk <= n; from += chunk {
				if c := dropRange(key, from, chunk); c != nil {
					out = append(out, c)
				}
			}
			if chunk == 1 {
				break
			}
		}
	}
	// shrink file contents: drop halves / single lines
	files := arr(sc, "files")
	for fi, f := range files {
		fm, _ := f.(map[string]interface{})
		data, ok := fm["data"].(string)
		if !ok || data == "" {
			continue
		}
		lines := strings.SplitAfter(data, "\n")
		for chunk := len(lines) / 2; chunk >= 1; chunk /= 2 {
			for from := 0; from+chunk <= len(lines); from += chunk {
				c := cloneSc(sc)
				nl := append(append([]string{}, lines[:from]...), lines[from+chunk:]...)
				arr(c, "files")[fi].(map[string]interface{})["data"] = strings.Join(nl, "")
				out = append(out, c)
			}
			if chunk == 1 {
				break
			}
		}
	}
	// drop single edits of change ops, faults of fault ops
	for oi, o := range arr(sc, "ops") {
		om, _ := o.(map[string]interface{})
		for _, key := range []string{"edits", "faults"} {
			es, _ := om[key].([]interface{})
			if len(es) > 1 {
				for ei := range es {
					c := cloneSc(sc)
					co := arr(c, "ops")[oi].(map[string]interface{})
					ce := co[key].([]interface{})
					co[key] = append(append([]interface{}{}, ce[:ei]...), ce[ei+1:]...)
					out = append(out, c)
				}
			}
		}
		if a, _ := om["async"].(bool); a && burstFrom < 0 {
			c := cloneSc(sc)
			delete(arr(c, "ops")[oi].(map[string]interface{}), "async")
			out = append(out, c)
		}
	}
	// schedule tapes: truncate and zero
	shrinkTape := func(get func(c map[string]interface{}) map[string]interface{}) {
		cur := get(sc)
		if cur == nil {
			return
		}
		tape, _ := cur["tape"].([]interface{})
		if len(tape) == 0 {
			return
		}
		for _, keep := range []int{0, len(tape) / 4, len(tape) / 2, len(tape) * 3 / 4} {
			c := cloneSc(sc)
			m := get(c)
			m["tape"] = tape[:keep]
			m["use_tape"] = true
			out = append(out, c)
		}
		// zero a window
		for _, w := range [][2]int{{0, len(tape) / 2}, {len(tape) / 2, len(tape)}, {0, len(tape) / 4}, {len(tape) / 4, len(tape) / 2}, {len(tape) / 2, len(tape) * 3 / 4}, {len(tape) * 3 / 4, len(tape)}} {
			c := cloneSc(sc)
			m := get(c)
			t2 := append([]interface{}{}, tape...)
			changed := false
			for i := w[0]; i < w[1]; i++ {
				if n, _ := t2[i].(json.Number); n.String() != "0" {
					t2[i] = json.Number("0")
					changed = true
				}
			}
			if changed {
				m["tape"] = t2
				out = append(out, c)
			}
		}
	}
	shrinkTape(func(c map[string]interface{}) map[string]interface{} {
		m, _ := c["sched"].(map[string]interface{})
		return m
	})
	for i := range arr(sc, "scheds") {
		i := i
		shrinkTape(func(c map[string]interface{}) map[string]interface{} {
			a := arr(c, "scheds")
			if i >= len(a) {
				return nil
			}
			m, _ := a[i].(map[string]interface{})
			return m
		})
	}
	return out
}

func size(sc map[string]interface{}) int {
	b, _ := json.Marshal(sc)
	n := len(b)
	// tapes count by their non-zero entries, not by length in bytes
	return n
}

// minimise shrinks a failing scenario while the same (class, signature) persists.  Candidates
// are evaluated in parallel, each in a fresh worker process.
func minimise(worker, prop string, sc map[string]interface{}, class, sig string, race bool, workers int, budget time.Duration) map[string]interface{} {
	deadline := time.Now().Add(budget)
	start := size(sc)
	evals := 0
	for round := 0; time.Now().Before(deadline); round++ {
		cands := candidates(sc, round)
		if len(cands) == 0 {
			break
		}
		improved := false
		for base := 0; base < len(cands) && !improved && time.Now().Before(deadline); base += workers {
			end := base + workers
			if end > len(cands) {
				end = len(cands)
			}
			results := make([]*Verdict, end-base)
			var wg sync.WaitGroup
			for i := base; i < end; i++ {
				wg.Add(1)
				go func(i int) {
					defer wg.Done()
					results[i-base] = evalScenario(worker, prop, cands[i], race, 20)
					if race && sameViolation(results[i-base], class, sig) {
						// what the race detector reports depends on its shadow memory: a candidate is
						// accepted only if it fails in two further fresh processes as well
						for k := 0; k < 2; k++ {
							if again := evalScenario(worker, prop, cands[i], race, 20); !sameViolation(again, class, sig) {
								results[i-base] = again
								break
							}
						}
					}
				}(i)
			}
			wg.Wait()
			evals += end - base
			for i, v := range results {
				if sameViolation(v, class, sig) {
					next := cands[base+i]
					if v.Scenario != nil {
						// keep the replay form (tapes) produced by the oracle, but never grow
						if size(v.Scenario) <= size(next)+64 {
							next = v.Scenario
						}
					}
					if size(next) < size(sc) {
						sc = next
						improved = true
						break
					}
				}
			}
		}
		if !improved {
			break
		}
	}
	fmt.Fprintf(os.Stderr, "verifctl: minimised %d -> %d bytes in %d candidate evaluations\n", start, size(sc), evals)
	return sc
}
